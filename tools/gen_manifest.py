#!/usr/bin/env python3
"""Regenerate MANIFEST.json from the table below (keeps it valid while properties are being added)."""
import json, os
HERE = os.path.dirname(os.path.dirname(os.path.abspath(__file__)))
TECH = 'symbolic execution of the real opticomlib source over a numpy model (SymNP), path forking; z3 decides each obligation; counterexamples replayed on the unmodified library'
NOTE = ('Trusted base: the SymNP numpy/scipy model (validated on every run by differential execution against the real library on '
        'concrete inputs), the transcendental axiom table (DESIGN §1.5), exact-real idealisation of floats (DESIGN §2), z3 5.1. '
        'Bounds and the clauses outside the claim are listed in the evidence file.')
CLAIMED = {
 # id: (level text, design_ref, technique override)
}
NOT_APPLICABLE = {}
exec(open(os.path.join(HERE, 'tools', 'manifest_table.py')).read())
checks = []
for pid in sorted(CLAIMED):
    text, ref, tech = CLAIMED[pid]
    checks.append({
        'property_id': pid,
        'quick_cmd': f'./check {pid} --tier quick',
        'thorough_cmd': f'./check {pid} --tier thorough',
        'evidence_file': f'/verif/evidence/{pid}.json',
        'replay_cmd_template': f'./check {pid} --replay {{path}}',
        'engine': 'symnp',
        'level_claimed': {'category': 'model_checking', 'text': text, 'design_ref': ref},
        'level_note': NOTE,
        'technique': tech or TECH,
    })
m = {
 'version': 1,
 'setup_cmd': './check setup',
 'hooks': {'guard': 'OPTICOMLIB_VERIF', 'enable': 'no source hook is needed: the checks load /repo/opticomlib/*.py directly on every run',
           'baseline_off_cmd': 'cd /repo && /venv/bin/python -m pytest -ra -q -p no:cacheprovider --timeout=900 --continue-on-collection-errors',
           'source_commits': [], 'add_only': True},
 'engines': [{'name': 'symnp', 'path': '/verif/vf', 'serves_properties': sorted(CLAIMED),
              'kind_free_text': 'bounded symbolic execution of the Python source over a symbolic numpy model + SMT (z3; cvc5 cross-check in the thorough tier)'}],
 'checks': checks,
 'not_applicable': [{'property_id': k, 'reason': v} for k, v in sorted(NOT_APPLICABLE.items())],
 'notes': 'Exit codes: 0 held / known findings only; 1 reproduced violation (VIOLATION line); 2 inconclusive (treated as broken). See DESIGN.md §7.',
}
json.dump(m, open(os.path.join(HERE, 'MANIFEST.json'), 'w'), indent=1)
print('claimed', sorted(CLAIMED), 'n/a', sorted(NOT_APPLICABLE))
