NB = 'check not built yet in this round (planned in DESIGN.md §5); will be claimed once its harness is committed'
CLAIMED = {
 'C15': ('Bounded symbolic model checking: every element value of every operand within the stated lengths/containers/slice forms is a solver variable; each clause is an SMT obligation discharged on every path of the real typing.py code.', 'DESIGN.md §5 C15', None),
 'C01': ('Bounded symbolic model checking of one inductive step (constructor / operator / slice / copy / transform) from arbitrary valid operands against an independent (signal, noise) pair model; aliasing and mutation decided by buffer-identity monitors on every path.', 'DESIGN.md §5 C01', None),
 'C04': ('Bounded symbolic model checking with bit-vectors: the real PRBS function is executed on a symbolic 64-bit seed / register state; recurrence, resume and seed handling are decided for every seed, maximal period for every state of every order through solver-decided linearity and GF(2) fixed-point queries.', 'DESIGN.md §5 C04', 'symbolic execution of the real PRBS loop over z3 bit-vectors; GF(2) fixed-point queries for the period; counterexamples replayed on the unmodified library'),
 'C05': ('Bounded symbolic model checking: bits, Vout, bias and sample values are solver variables; every sample of the NRZ/RZ waveform, every SAMPLER instant and the validation branches are decided on every path of the real DAC/SAMPLER code; Gaussian clauses decided on a stated parameter grid.', 'DESIGN.md §5 C05', None),
 'C12': ('Bounded symbolic model checking: bit strings, slot patterns, waveform samples and every random draw of HDD are solver variables; one-hot placement, round trip, HDD repair rules and SDD argmax are decided on every path of the real ppm.py code.', 'DESIGN.md §5 C12', None),
}
NOT_APPLICABLE = {f'C{i:02d}': NB for i in range(1, 21) if f'C{i:02d}' not in CLAIMED}
NOT_APPLICABLE['C17'] = ('every clause is a statement about sklearn KMeans / scipy resample / gaussian_kde on >= 8192-sample records; '
                         'no bounded encoding within reach of solver-based checking (DESIGN.md §6)')
