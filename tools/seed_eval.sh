#!/bin/bash
# usage: tools/seed_eval.sh <ID> [<name>] [check args...]
# Confirms a sub-agent's seeded change in its scratch worktree (/tmp/wt_<ID>), stores it under /verif/seeded/<name>/,
# then applies it to /repo, runs the property's quick check, and reverts /repo straight afterwards.
set -u
ID=$1; NAME=${2:-$1}; shift; shift || true
WT=/tmp/wt_$ID
OUT=/verif/seeded/$NAME
mkdir -p $OUT
cp $WT/seeded_out/patch.diff $WT/seeded_out/demo.py $OUT/ 2>/dev/null
cp $WT/seeded_out/notes.md $OUT/notes.md 2>/dev/null
cd $WT && git checkout -q -- opticomlib && git apply seeded_out/patch.diff || { echo "patch does not apply"; exit 3; }
T=$(/venv/bin/python -m pytest -q -p no:cacheprovider tests 2>&1 | tail -1)
PYTHONPATH=$WT /venv/bin/python seeded_out/demo.py >/tmp/seed_demo_$ID.txt 2>&1; D1=$?
git checkout -q -- opticomlib
PYTHONPATH=$WT /venv/bin/python seeded_out/demo.py >/dev/null 2>&1; D0=$?
echo "tests with patch: $T | demo with patch exit=$D1 | demo without patch exit=$D0"
cd /repo && git apply $OUT/patch.diff || { echo "patch does not apply to /repo"; exit 3; }
cd /verif
VERIF_NO_EVIDENCE=1 VERIF_REPLAY_DIR=/tmp/seed_replays_$ID ./check $ID "$@" > /tmp/seed_check_$ID.txt 2>&1; RC=$?
git -C /repo checkout -- .
grep -v "^WARNING" /tmp/seed_check_$ID.txt | grep -c "^VIOLATION" | sed 's/^/VIOLATION lines: /'
grep -v "^WARNING" /tmp/seed_check_$ID.txt | tail -4 | cut -c1-300
echo "check exit=$RC"
python3 - "$ID" "$NAME" "$T" "$D1" "$D0" "$RC" <<'PY'
import json, sys, os
pid, name, t, d1, d0, rc = sys.argv[1:7]
out = f'/verif/seeded/{name}'
chk = [l for l in open(f'/tmp/seed_check_{pid}.txt').read().split('\n') if l.startswith('  violation') or l.startswith('[')]
meta = {'property': pid, 'origin': 'independent sub-agent given only the property text and a scratch worktree',
        'needs_to_manifest': open(out + '/notes.md').read()[:1500] if os.path.exists(out + '/notes.md') else '',
        'confirmed': {'existing_tests_with_patch': t, 'demo_exit_with_patch': int(d1), 'demo_exit_without_patch': int(d0)},
        'check_run': {'cmd': f'./check {pid} --tier quick (patch applied to /repo with git apply, reverted afterwards)', 'exit': int(rc),
                      'detected': int(rc) == 1, 'summary': chk[-6:]}}
json.dump(meta, open(out + '/meta.json', 'w'), indent=1)
PY
rm -rf /tmp/seed_replays_$ID
