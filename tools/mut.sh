#!/bin/bash
# usage: tools/mut.sh <ID> <file> <python-replace-old> <python-replace-new> [extra check args]
# runs one check against a scratch copy of /repo with a textual mutation (self-test aid; not part of any registered command)
set -e
D=$(mktemp -d /tmp/mut.XXXX)
cp -r /repo/opticomlib $D/
python3 - "$D/opticomlib/$2" "$3" "$4" <<'PY'
import sys
p, old, new = sys.argv[1:4]
s = open(p).read()
assert s.count(old) >= 1, 'pattern not found'
open(p, 'w').write(s.replace(old, new, 1))
PY
ID=$1; shift 4
mkdir -p /tmp/mutreplays
VERIF_REPLAY_DIR=$D/replays VERIF_REPO=$D VERIF_NO_EVIDENCE=1 /verif/check $ID "$@" 2>&1 | grep -v "^WARNING" | tail -6
rm -rf $D
