"""Scenario runner: symbolic exploration, obligation discharge, replay and differential validation.

A *scenario* is a Python function `scen(env, cfg)` written against the small `Env` API so that
the same code runs
  * symbolically  (inputs = solver variables, library = real source over the SymNP model),
  * concretely over the model (exact rationals; translator validation, DESIGN §4.2),
  * concretely on the unmodified library with the real numpy (replay, DESIGN §3).
"""
from __future__ import annotations
import cmath
import hashlib
import json
import math
import os
import random as _random
import signal as _signal
import sys
import time
import traceback
from fractions import Fraction as Fr

import z3

from . import core, tf, snp
from .core import (R, C, SI, SB, BV, Ctx, set_ctx, ctx, PathAbort, LimitHit, EncodingGap, ite, sb_and, sb_or,
                   sb_not, is_symbolic)

VERIF = os.path.dirname(os.path.dirname(os.path.abspath(__file__)))
REPO = os.environ.get('VERIF_REPO', '/repo')


class ReplayTimeout(BaseException):
    pass


def _alarm(sig, frm):
    raise ReplayTimeout()


# ------------------------------------------------------------------------------------ real library

_real_lib = None


class RealLib:
    def __init__(self):
        if REPO not in sys.path:
            sys.path.insert(0, REPO)
        for k in [k for k in sys.modules if k == 'opticomlib' or k.startswith('opticomlib.')]:
            del sys.modules[k]
        import importlib
        import matplotlib
        matplotlib.use('Agg')
        self.utils = importlib.import_module('opticomlib.utils')
        self.typing = importlib.import_module('opticomlib.typing')
        self.devices = importlib.import_module('opticomlib.devices')
        self.ppm = importlib.import_module('opticomlib.ppm')
        self.ook = importlib.import_module('opticomlib.ook')
        try:
            self.lab = importlib.import_module('opticomlib.lab')
        except Exception:           # pyvisa may be missing; lab is only needed by C20
            self.lab = None
        assert os.path.realpath(self.typing.__file__).startswith(os.path.realpath(REPO)), self.typing.__file__

    def reset(self):
        self.typing.gv.clean()
        self.utils._timer_instance.tic_stack.clear()


def real_lib():
    global _real_lib
    if _real_lib is None:
        _real_lib = RealLib()
    return _real_lib


# ------------------------------------------------------------------------------------ Env

class Env:
    NonFinite = core.NonFinite

    def __init__(self, symbolic, impl, lib, values=None, rng=None, rtol=1e-7):
        self.symbolic = symbolic
        self.impl = impl                    # 'model' | 'real'
        self.lib = lib
        self.values = values if values is not None else {}
        self.rng = rng
        self.rtol = rtol
        self.checks = []                    # (name, ok: True/False/None, info)
        self.trace = []                     # observations for differential validation
        self.used = {}                      # concrete values actually used (name -> value)
        self.on_check = None
        self.warn_log = []
        self.draw_log = []
        if impl == 'model':
            self.np = lib.np()
        else:
            import numpy
            self.np = numpy

    # ---- inputs -------------------------------------------------------------------------
    def _conc(self, name, lo, hi, integer=False):
        if name in self.values:
            v = self.values[name]
        elif self.rng is not None:
            a = -4.0 if lo is None else float(lo)
            b = 4.0 if hi is None else float(hi)
            if lo is None and hi is not None:
                a = b - 8.0
            if hi is None and lo is not None:
                b = a + 8.0
            v = self.rng.randint(int(math.ceil(a)), int(math.floor(b))) if integer else self.rng.uniform(a, b)
        else:
            v = 0 if integer else 0.0
        self.used[name] = v
        return v

    def real(self, name, lo=None, hi=None, lo_strict=False, hi_strict=False):
        if self.symbolic:
            c = ctx()
            v = z3.Real(name)
            c.inputs[name] = v
            x = R(v)
        else:
            f = self._conc(name, lo, hi)
            if isinstance(f, Fr):
                x = R(f) if self.impl == 'model' else float(f)
            else:
                x = R(Fr(float(f))) if self.impl == 'model' else float(f)
        if lo is not None:
            self.assume(x > lo if lo_strict else x >= lo)
        if hi is not None:
            self.assume(x < hi if hi_strict else x <= hi)
        return x

    def int(self, name, lo=None, hi=None):
        if self.symbolic:
            c = ctx()
            v = z3.Int(name)
            c.inputs[name] = v
            x = SI(v)
        else:
            x = int(self._conc(name, lo, hi, integer=True))
        if lo is not None:
            self.assume(x >= lo)
        if hi is not None:
            self.assume(x <= hi)
        return x

    def bit(self, name):
        return self.int(name, 0, 1)

    def boolean(self, name):
        if self.symbolic:
            v = z3.Bool(name)
            ctx().inputs[name] = v
            return SB(v)
        return bool(self._conc(name, 0, 1, integer=True))

    def cplx(self, name, lo=None, hi=None):
        re = self.real(name + '.re', lo, hi)
        im = self.real(name + '.im', lo, hi)
        if self.impl == 'model':
            return C(re, im)
        return complex(re, im)

    def bv(self, name, width):
        if self.symbolic:
            v = z3.BitVec(name, width)
            ctx().inputs[name] = v
            return BV(v, width)
        v = int(self._conc(name, -(1 << (width - 1)), (1 << (width - 1)) - 1, integer=True))
        return v

    def string(self, name, maxlen, alphabet):
        """string of length <= maxlen over the given alphabet."""
        if self.symbolic:
            v = z3.String(name)
            ctx().inputs[name] = v
            ctx().pc.append(z3.Length(v) <= maxlen)
            allowed = z3.Star(z3.Union(*[z3.Re(ch) for ch in alphabet]))
            ctx().pc.append(z3.InRe(v, allowed))
            return core.SymStr(v, maxlen)
        if name in self.values:
            s = self.values[name]
        elif self.rng is not None:
            s = ''.join(self.rng.choice(alphabet) for _ in range(self.rng.randint(0, maxlen)))
        else:
            s = ''
        self.used[name] = s
        return s

    def reals(self, name, n, lo=None, hi=None):
        return [self.real(f'{name}[{i}]', lo, hi) for i in range(n)]

    def cplxs(self, name, n, lo=None, hi=None):
        return [self.cplx(f'{name}[{i}]', lo, hi) for i in range(n)]

    def bits(self, name, n):
        return [self.bit(f'{name}[{i}]') for i in range(n)]

    def arr(self, items, dtype=None):
        """array from a list (or nested list) of scalars."""
        return self.np.array(items, dtype=dtype)

    def num(self, x):
        """exact value of a double (the model keeps the binary value, not its decimal rendering)."""
        if self.impl == 'model':
            return R(Fr(float(x)))
        return float(x)

    def const(self, text):
        """exact constant from decimal text."""
        if self.impl == 'model':
            return R(Fr(text))
        return float(Fr(text))

    # ---- polymorphic helpers ----------------------------------------------------------------
    def items(self, a):
        if isinstance(a, snp.ndarray):
            return a.flat_list()
        if isinstance(a, (list, tuple)):
            return list(a)
        import numpy
        if isinstance(a, numpy.ndarray):
            return list(a.reshape(-1))
        return [a]

    def rows(self, a):
        """list of rows (each a list) of a 1-D or 2-D array."""
        if a.ndim == 1:
            return [self.items(a)]
        return [self.items(a[i]) for i in range(a.shape[0])]

    def re(self, z):
        return z.re if isinstance(z, C) else (z.real if isinstance(z, complex) or hasattr(z, 'real') else z)

    def im(self, z):
        if isinstance(z, C):
            return z.im
        if isinstance(z, (R, SI, int, float)):
            return 0 * z
        return z.imag

    def abs2(self, z):
        if isinstance(z, C):
            return z.abs2()
        if isinstance(z, (R, SI, int, float)):
            return z * z
        return z.real * z.real + z.imag * z.imag

    def conj(self, z):
        return z.conjugate() if hasattr(z, 'conjugate') else z

    def cx(self, re, im):
        if self.impl == 'model':
            return C(re, im)
        return complex(re, im)

    def _fn(self, name, x):
        if self.impl == 'model':
            return getattr(tf, name)(x)
        if name == 'pow10':
            return 10.0 ** float(x)
        if name == 'cossin':
            return math.cos(x), math.sin(x)
        return getattr(math, name)(x)

    def sqrt(self, x): return self._fn('sqrt', x)
    def exp(self, x): return self._fn('exp', x)
    def log(self, x): return self._fn('log', x)
    def log10(self, x): return self._fn('log10', x)
    def pow10(self, x): return self._fn('pow10', x)
    def cos(self, x): return self._fn('cos', x)
    def sin(self, x): return self._fn('sin', x)
    def erfc(self, x): return self._fn('erfc', x)

    def pi(self):
        if self.impl == 'model':
            return tf.PI()
        return math.pi

    def ite(self, c, a, b):
        if isinstance(c, SB):
            return ite(c, a, b)
        return a if c else b

    def And(self, *xs):
        xs = xs[0] if len(xs) == 1 and isinstance(xs[0], (list, tuple)) else xs
        return sb_and(list(xs)) if self.impl == 'model' else all(bool(x) for x in xs)

    def Or(self, *xs):
        xs = xs[0] if len(xs) == 1 and isinstance(xs[0], (list, tuple)) else xs
        return sb_or(list(xs)) if self.impl == 'model' else any(bool(x) for x in xs)

    def Not(self, x):
        return sb_not(x) if isinstance(x, SB) else (not x)

    def Implies(self, a, b):
        return self.Or(self.Not(a), b)

    def Iff(self, a, b):
        if isinstance(a, SB) and isinstance(b, SB):
            return a == b
        if isinstance(a, SB):
            return a if b else ~a
        if isinstance(b, SB):
            return b if a else ~b
        return bool(a) == bool(b)

    # comparisons with a tolerance in floating-point (replay / validation) mode
    def _tol(self, a, b, scale):
        s = max(abs(a), abs(b)) if scale is None else abs(scale)
        return self.rtol * s + 1e-300

    def eq(self, a, b, scale=None):
        if hasattr(scale, 'n') and hasattr(scale, 'concrete'):
            scale = float(scale.n) if scale.concrete else None
        if isinstance(a, (C, complex)) or isinstance(b, (C, complex)) or (
                self.impl == 'real' and (isinstance(a, complex) or isinstance(b, complex) or _is_np_complex(a) or _is_np_complex(b))):
            if self.impl == 'model':
                a, b = C.of(a), C.of(b)
                if scale is None and a.concrete and b.concrete:
                    scale = max(abs(complex(a)), abs(complex(b)))
                return sb_and([self.eq(a.re, b.re, scale), self.eq(a.im, b.im, scale)])
            a, b = complex(a), complex(b)
            return abs(a - b) <= self._tol(a, b, scale)
        if self.impl == 'model':
            if isinstance(a, (BV, SB, bool, str)) or isinstance(b, (BV, SB, bool, str)):
                return a == b
            d = a - b
            if isinstance(d, R) and not d.concrete:
                # discharge equalities in sum-of-monomials normal form (DESIGN §1.4)
                n = tf._canon(core.tz(d.n))
                # robust violation: |a-b| > 1e-5*scale (only used to choose replayable counterexamples)
                eps = z3.RealVal('1/100000') * (core.rv(Fr(abs(scale))) if isinstance(scale, (int, float, Fr)) and scale else z3.RealVal(1))
                if core._isz(d.d):
                    dd = core.tz(d.d)
                    rf = z3.Or(n * dd > eps * dd * dd, n * dd < -eps * dd * dd)
                else:
                    rf = z3.Or(n > eps, n < -eps)
                return SB(n == 0, None, rf)
            if isinstance(d, R):
                # both sides concrete: they may carry libm-evaluated constants, compare like doubles
                ra, rb = R.of(a), R.of(b)
                if ra.concrete and rb.concrete:
                    fa, fb = float(ra.n), float(rb.n)
                    return abs(fa - fb) <= self._tol(fa, fb, scale)
                return d.n == 0
            return a == b
        if isinstance(a, (bool, str)) or isinstance(b, (bool, str)):
            return a == b
        if isinstance(a, int) and isinstance(b, int):
            return a == b
        return abs(a - b) <= self._tol(a, b, scale)

    def _both_conc(self, a, b):
        try:
            a, b = R.of(a), R.of(b)
        except TypeError:
            return None
        if a.concrete and b.concrete:
            return float(a.n), float(b.n)
        return None

    def le(self, a, b, scale=None):
        if self.impl == 'model':
            c = self._both_conc(a, b)
            if c is not None:
                return c[0] <= c[1] + self._tol(c[0], c[1], scale)
            r = a <= b
            if isinstance(r, SB) and r.rf is None:
                m = R(Fr(1, 100000)) * (R.of(scale) if scale is not None and not hasattr(scale, 't') else 1)
                g = a > b + m
                if isinstance(g, SB):
                    r = SB(r.t, None, g.t)
            return r
        return a <= b + self._tol(a, b, scale)

    def lt(self, a, b, scale=None):
        if self.impl == 'model':
            c = self._both_conc(a, b)
            if c is not None:
                return c[0] < c[1] + self._tol(c[0], c[1], scale)
            r = a < b
            if isinstance(r, SB) and r.rf is None:
                m = R(Fr(1, 100000)) * (R.of(scale) if scale is not None and not hasattr(scale, 't') else 1)
                g = a > b + m
                if isinstance(g, SB):
                    r = SB(r.t, None, g.t)
            return r
        return a < b + self._tol(a, b, scale)

    def eqs(self, xs, ys, scale=None):
        xs, ys = self.items(xs), self.items(ys)
        if len(xs) != len(ys):
            return False
        return self.And([self.eq(x, y, scale) for x, y in zip(xs, ys)])

    # ---- aliasing / mutation monitors ----------------------------------------------------------
    def snap(self, arr):
        """Snapshot of an array's contents (and, in the model, of the write log position)."""
        if arr is None:
            return None
        if isinstance(arr, snp.ndarray):
            return ('m', list(arr.flat_list()), arr.base_id(), len(ctx().events), arr.shape, arr.dtype.name)
        return ('r', arr.copy(), None, None, arr.shape, str(arr.dtype))

    def untouched(self, arr, snap):
        """arr still holds exactly the snapshot and (model) no write was logged on its buffer."""
        if arr is None or snap is None:
            return arr is None and snap is None
        if snap[0] == 'm':
            if arr.shape != snap[4] or arr.dtype.name != snap[5]:
                return False
            for e in ctx().events[snap[3]:]:
                if e[0] == 'write' and e[1] == snap[2]:
                    return False
            now = arr.flat_list()
            conds = []
            for a, b in zip(now, snap[1]):
                if a is b:
                    continue
                conds.append(a == b)
            return sb_and(conds)
        import numpy
        return arr.shape == snap[4] and str(arr.dtype) == snap[5] and bool(numpy.array_equal(arr, snap[1]))

    def shares(self, a, b):
        if a is None or b is None:
            return False
        if isinstance(a, snp.ndarray):
            return snp.shares_memory(a, b)
        import numpy
        return bool(numpy.shares_memory(a, b))

    def dtype_name(self, arr):
        if isinstance(arr, snp.ndarray):
            return arr.dtype.name
        return _np_name(arr.dtype)

    # ---- assumptions / checks -----------------------------------------------------------------
    def assume(self, cond, note=None):
        if isinstance(cond, SB):
            core.assume(cond, note)
        elif not cond:
            raise PathAbort('assumption violated')

    def observe(self, name, val):
        self.trace.append((name, _to_plain(val)))

    def check(self, name, cond, **info):
        if self.on_check is not None:
            self.on_check(self, name, cond, info)
        else:
            ok = bool(cond)
            self.checks.append((name, ok, info))

    def draw(self, index, kind, ns=''):
        """value of the index-th draw of the random stubs (symbolic variable or the concrete value fed)."""
        name = f'draw{ns}{index}_{kind}'
        if self.symbolic:
            if kind in ('randint', 'choice'):
                return SI(z3.Int(name))
            return R(z3.Real(name))
        for n_, v in self._feeder.log:
            if n_ == name:
                if kind in ('randint', 'choice'):
                    return int(v)
                return R(Fr(float(v))) if self.impl == 'model' else float(v)
        raise KeyError(name)

    def fresh_lib(self):
        """a library instance with pristine module-level state (no caches warmed, default gv): the model re-executes the current
        source, the real side re-imports the opticomlib modules."""
        if self.impl == 'model':
            from .loader import Library
            return Library(REPO)
        return RealLib()

    def np_of(self, lib):
        """numpy as seen by that library instance (the model's numpy, or the real one)."""
        if self.impl == 'model':
            return lib.np()
        import numpy
        return numpy

    def mark(self):
        """position in the definedness log (model) / warning log (real), for check_defined."""
        if self.impl == 'model':
            return len(ctx().defs)
        return len(getattr(self, '_live', []) or [])

    def check_defined(self, name, outputs, since=0, until_event=None, steer=None):
        """No division by zero / log of a non-positive value / out-of-range index is reachable in the library code run
        since `since`, and the outputs are finite.  Symbolically: every recorded definedness side condition is implied by
        the path condition alone.  On the real library: outputs finite and no numpy RuntimeWarning."""
        import numpy
        if outputs is None:
            self.check(name, False)
            return
        if self.symbolic:
            defs = ctx().defs[since:]
            if until_event is not None:
                # only the side conditions recorded before the first event of that kind (e.g. before the first fft call)
                cut = None
                for e in ctx().events:
                    if e[0] == until_event:
                        cut = e
                        break
                if cut is not None:
                    n_before = 0
                    for e in ctx().events:
                        if e is cut:
                            break
                        if e[0] in ('div', 'def', 'sqrt', 'log'):
                            n_before += 1
                    defs = ctx().defs[since:][:max(0, n_before - since)] if since <= n_before else []
            cond = SB(z3.And(*defs)) if defs else True
            if steer and isinstance(cond, SB):
                # replay steering only (which counterexample is replayed, never the verdict): a corner where the undefined case
                # is far enough from the boundary to show up in double arithmetic
                cond = SB(cond.t, None, z3.And(z3.Not(cond.t), *steer))
            self.check(name, cond, _no_defs=True)
            return
        if self.impl == 'model':
            fin = True
            for o in outputs:
                for v in self.items(o):
                    if is_symbolic(v):
                        fin = False
            self.check(name, fin)
            return
        fin = True
        for o in outputs:
            a = numpy.asarray(o)
            if a.dtype.kind in 'fc' and not numpy.isfinite(a).all():
                fin = False
        live = getattr(self, '_live', []) or []
        for w in live[since:]:
            if issubclass(w.category, RuntimeWarning):
                fin = False
        self.check(name, fin)

    def events(self, kind=None):
        """event log of the current run (model impl) or the recorded warnings (real impl)."""
        if self.impl == 'model':
            ev = ctx().events
            return [e for e in ev if kind is None or e[0] == kind]
        if kind == 'warn':
            live = getattr(self, '_live', None)
            if live is not None:
                return [('warn', (str(x.message), x.category.__name__)) for x in live]
            return [('warn', w) for w in self.warn_log]
        return []

    def warnings_count(self):
        return len(self.events('warn'))


def _is_np_complex(x):
    import numpy
    return isinstance(x, numpy.complexfloating)


def _to_plain(v):
    """JSON-able float view of a (concrete) value, for traces."""
    import numpy
    if isinstance(v, snp.ndarray):
        return [_to_plain(x) for x in v.flat_list()] + [['shape', list(v.shape), v.dtype.name]]
    if isinstance(v, numpy.ndarray):
        return [_to_plain(x) for x in v.reshape(-1)] + [['shape', list(v.shape), _np_name(v.dtype)]]
    if isinstance(v, (list, tuple)):
        return [_to_plain(x) for x in v]
    if isinstance(v, R):
        return float(v.n) if v.concrete else 'sym'
    if isinstance(v, C):
        return [float(v.re.n), float(v.im.n)] if v.concrete else 'sym'
    if isinstance(v, (complex, numpy.complexfloating)):
        return [float(v.real), float(v.imag)]
    if isinstance(v, (bool, numpy.bool_)):
        return bool(v)
    if isinstance(v, (int, numpy.integer)):
        return int(v)
    if isinstance(v, (float, numpy.floating)):
        return float(v)
    if isinstance(v, (SI, SB, BV)):
        return 'sym'
    if v is None or isinstance(v, str):
        return v
    return repr(v)


def _np_name(dt):
    k = dt.kind
    return {'b': 'bool', 'u': 'uint8', 'i': 'int64', 'f': 'float64', 'c': 'complex128'}.get(k, str(dt))


def traces_agree(t1, t2, rtol=1e-8):
    def cmp(a, b):
        if isinstance(a, list) and isinstance(b, list):
            return len(a) == len(b) and all(cmp(x, y) for x, y in zip(a, b))
        if isinstance(a, bool) or isinstance(b, bool) or isinstance(a, str) or isinstance(b, str) or a is None or b is None:
            return a == b
        if isinstance(a, (int, float)) and isinstance(b, (int, float)):
            return abs(a - b) <= rtol * max(abs(a), abs(b)) + 1e-13
        return a == b
    if len(t1) != len(t2):
        return False, f'trace lengths {len(t1)} vs {len(t2)}'
    for (n1, v1), (n2, v2) in zip(t1, t2):
        if n1 != n2 or not cmp(v1, v2):
            return False, f'{n1}: model {v1!r} vs real {v2!r}'
    return True, ''


# ------------------------------------------------------------------------------------ model values

def model_values(model, inputs):
    vals = {}
    for name, v in inputs.items():
        mv = model.eval(v, model_completion=True)
        if z3.is_int_value(mv):
            vals[name] = mv.as_long()
        elif z3.is_rational_value(mv):
            vals[name] = Fr(mv.numerator_as_long(), mv.denominator_as_long())
        elif z3.is_algebraic_value(mv):
            a = mv.approx(30)
            vals[name] = Fr(a.numerator_as_long(), a.denominator_as_long())
        elif z3.is_true(mv) or z3.is_false(mv):
            vals[name] = z3.is_true(mv)
        elif z3.is_bv_value(mv):
            vals[name] = mv.as_signed_long()
        elif z3.is_string_value(mv):
            vals[name] = mv.as_string()
        else:
            vals[name] = str(mv)
    return vals


def _jsonable(vals):
    out = {}
    for k, v in vals.items():
        if isinstance(v, Fr):
            out[k] = {'fr': [str(v.numerator), str(v.denominator)], 'float': float(v)}
        else:
            out[k] = v
    return out


def _unjson(vals):
    out = {}
    for k, v in vals.items():
        if isinstance(v, dict) and 'fr' in v:
            out[k] = Fr(int(v['fr'][0]), int(v['fr'][1]))
        else:
            out[k] = v
    return out


# ------------------------------------------------------------------------------------ concrete runs

class _DrawFeeder:
    """Feeds the values chosen for the random stubs into numpy.random during a concrete run."""

    def __init__(self, values, rng):
        self.values, self.rng, self.k, self.ns = values, rng, 0, ''
        self.log = []
        self.memo = {}

    def seed(self, s):
        self.ns, self.k = f's{s}_', 0

    def take(self, kind, n, integer=False, hi=None):
        out = []
        for _ in range(n):
            name = f'draw{self.ns}{self.k}_{kind}'
            self.k += 1
            if name in self.values:
                v = self.values[name]
            elif name in self.memo:
                v = self.memo[name]
            elif self.rng is not None:
                v = self.rng.randrange(hi) if integer and hi else (0 if integer else self.rng.gauss(0, 1))
            else:
                v = 0 if integer else 0.0
            self.memo[name] = v
            self.log.append((name, v))
            out.append(v)
        return out


def run_concrete(scen, cfg, values, impl, lib=None, rng=None, timeout=20):
    """Run a scenario on concrete inputs over the model ('model') or the unmodified library ('real')."""
    import numpy
    import warnings as _w
    if impl == 'real':
        lib = real_lib()
        lib.reset()
        env = Env(False, 'real', lib, values, rng)
        feeder = _DrawFeeder(values, rng)
        env._feeder = feeder
        saved = (numpy.random.normal, numpy.random.randn, numpy.random.randint, numpy.random.choice, numpy.random.seed)

        def normal(loc=0.0, scale=1.0, size=None):
            n = 1 if size is None else int(numpy.prod(size))
            d = numpy.array([float(x) for x in feeder.take('normal', n)])
            r = loc + scale * d
            return float(r[0]) if size is None else r.reshape(size)

        def randn(*shape):
            n = int(numpy.prod(shape)) if shape else 1
            d = numpy.array([float(x) for x in feeder.take('randn', n)])
            return float(d[0]) if not shape else d.reshape(shape)

        def randint(low, high=None, size=None):
            if high is None:
                low, high = 0, low
            return int(feeder.take('randint', 1, True, high - low)[0])

        def choice(a, size=None):
            a = numpy.asarray(a)
            return a[int(feeder.take('choice', 1, True, len(a))[0])]
        numpy.random.normal, numpy.random.randn, numpy.random.randint, numpy.random.choice = normal, randn, randint, choice
        numpy.random.seed = lambda s=None: feeder.seed(s)
        old = _signal.signal(_signal.SIGALRM, _alarm)
        _signal.alarm(timeout)
        status, exc = 'ok', None
        try:
            with _w.catch_warnings(record=True) as wl:
                _w.simplefilter('always')
                env._live = wl
                try:
                    scen(env, cfg)
                finally:
                    env.warn_log = [str(x.message) for x in wl]
        except PathAbort:
            status = 'aborted'
        except ReplayTimeout:
            status, exc = 'timeout', 'timeout'
        except Exception as e:          # noqa: an exception escaping the scenario is an outcome
            status, exc = 'exception', f'{type(e).__name__}: {e}'
            env.tb = traceback.format_exc()
        finally:
            _signal.alarm(0)
            _signal.signal(_signal.SIGALRM, old)
            numpy.random.normal, numpy.random.randn, numpy.random.randint, numpy.random.choice, numpy.random.seed = saved
        env.status, env.exc = status, exc
        env.draw_log = feeder.log
        return env
    # model implementation, concrete values
    c = Ctx((), {})
    c.mode = 'concrete'
    feeder = _DrawFeeder(values, rng)
    c.draw_source = lambda kind, n: [R(Fr(float(x))) if kind in ('normal', 'randn') else int(x)
                                     for x in feeder.take(kind, n, kind in ('randint', 'choice'))]
    c.draw_seed = feeder.seed
    set_ctx(c)
    lib.reset()
    env = Env(False, 'model', lib, values, rng)
    env._feeder = feeder
    status, exc = 'ok', None
    old = _signal.signal(_signal.SIGALRM, _alarm)
    _signal.alarm(timeout)
    try:
        scen(env, cfg)
    except PathAbort:
        status = 'aborted'
    except ReplayTimeout:
        status, exc = 'aborted', 'model run exceeded the time budget (sample skipped)'
    except (EncodingGap, LimitHit) as e:
        status, exc = 'gap', f'{type(e).__name__}: {e}'
        env.tb = traceback.format_exc()
    except Exception as e:
        status, exc = 'exception', f'{type(e).__name__}: {e}'
        env.tb = traceback.format_exc()
    finally:
        _signal.alarm(0)
        _signal.signal(_signal.SIGALRM, old)
        set_ctx(None)
    env.status, env.exc = status, exc
    env.warn_log = [e[1][0] if isinstance(e[1], tuple) else e[1] for e in c.events if e[0] == 'warn']
    env.draw_log = feeder.log
    return env


# ------------------------------------------------------------------------------------ symbolic run

class ConfigResult(dict):
    pass


_vars_cache = {}
CROSS = {'on': os.environ.get('VERIF_CROSS') == '1', 'agree': 0, 'cvc5_unknown': 0, 'disagree': [], 'skipped': 0, 'time': 0.0}


def cvc5_verdict(smt2, timeout_ms=8000):
    """second opinion (DESIGN §4.4): the same SMT-LIB text handed to cvc5 (python wheel)."""
    try:
        import cvc5
    except Exception:
        return 'unavailable'
    try:
        slv = cvc5.Solver()
        slv.setOption('tlimit-per', str(timeout_ms))
        slv.setLogic('ALL')
        ip = cvc5.InputParser(slv)
        ip.setStringInput(cvc5.InputLanguage.SMT_LIB_2_6, smt2, 'obligation')
        sm = ip.getSymbolManager()
        res = 'unknown'
        while True:
            cmd = ip.nextCommand()
            if cmd.isNull():
                break
            out = cmd.invoke(slv, sm).strip()
            if out in ('sat', 'unsat', 'unknown'):
                res = out
            elif out.startswith('(error'):
                return 'error'
        return res
    except Exception as e:          # parse errors for z3-specific constructs etc.
        return 'error'



def _vars_of(t):
    """names of the uninterpreted constants of a term (cached by AST id while the term is alive)."""
    key = t.get_id()
    hit = _vars_cache.get(key)
    if hit is not None and hit[0].eq(t):
        return hit[1]
    seen, out, stack = set(), set(), [t]
    while stack:
        x = stack.pop()
        i = x.get_id()
        if i in seen:
            continue
        seen.add(i)
        if z3.is_const(x) and x.decl().kind() == z3.Z3_OP_UNINTERPRETED:
            out.add(x.decl().name())
        else:
            stack.extend(x.children())
    _vars_cache[key] = (t, out)
    return out


def cone(facts, goal_terms):
    """cone of influence: the facts transitively sharing a variable with the goal.  Dropping the others is sound for
    `unsat` and, because every dropped group is a satisfiable set of true facts over its own fresh variables, also for `sat`."""
    live = set()
    for g in goal_terms:
        live |= _vars_of(g)
    rest = [(f, _vars_of(f)) for f in facts]
    keep = []
    changed = True
    while changed:
        changed = False
        nxt = []
        for f, vs in rest:
            if not vs or (vs & live):
                keep.append(f)
                if not vs <= live:
                    live |= vs
                    changed = True
            else:
                nxt.append((f, vs))
        rest = nxt
    return keep


def prove(facts, goal_t, timeout_ms):
    """(verdict, model): verdict 'unsat' = goal holds under facts."""
    s = z3.Solver()
    s.set('timeout', timeout_ms)
    neg = z3.Not(goal_t)
    for f in cone(facts, [neg]):
        s.add(f)
    s.add(neg)
    t0 = time.time()
    r = core.safe_check(s)
    m = s.model() if r == 'sat' else None
    if CROSS['on'] and r in ('sat', 'unsat'):
        t1 = time.time()
        v = cvc5_verdict(s.to_smt2())
        CROSS['time'] += time.time() - t1
        if v in ('sat', 'unsat'):
            if v == r:
                CROSS['agree'] += 1
            else:
                CROSS['disagree'].append(f'z3 {r} vs cvc5 {v}: {_short(goal_t, 160)}')
        elif v == 'unknown':
            CROSS['cvc5_unknown'] += 1
        else:
            CROSS['skipped'] += 1
    if r == 'sat':
        # complete the model over the facts that were outside the cone (input ranges of unrelated variables, ...)
        s2 = z3.Solver()
        s2.set('timeout', min(timeout_ms, 20000))
        for f in facts:
            s2.add(f)
        s2.add(neg)
        for d in m.decls():
            if d.arity() == 0:
                v = m[d]
                if z3.is_algebraic_value(v):
                    continue
                s2.add(d() == v)
        if core.safe_check(s2) == 'sat':
            m = s2.model()
    dt = time.time() - t0
    return r, m, dt, s


def run_symbolic(scen, cfg, lib, limits=None, known=None, prop='?', cfg_name='?'):
    """Explore every path of scen under cfg; discharge every check; replay counterexamples."""
    limits = dict(limits or {})
    q_timeout = limits.get('query_timeout_ms', 240000)
    max_paths = limits.get('max_paths', 2000)
    res = ConfigResult(config=cfg_name, paths=0, feasible_paths=0, aborted_paths=0, obligations=0, discharged=0,
                       trivial=0, solver_s=0.0, queries=0, violations=[], known_hits=[], inconclusive=[],
                       samples=[], reach={}, unknown_feas=0, max_path_len=0, warnings=0)
    work = [[]]
    seen_checks = {}
    t_start = time.time()
    while work:
        prefix = work.pop()
        if res['paths'] >= max_paths:
            res['inconclusive'].append(f'path limit {max_paths} reached')
            break
        res['paths'] += 1
        c = Ctx(prefix, limits)
        set_ctx(c)
        lib.reset()
        env = Env(True, 'model', lib)
        path_checks = []

        def on_check(env_, name, cond, info, c=c, path_checks=path_checks):
            res['obligations'] += 1
            key = name
            if isinstance(cond, SB):
                goal = cond.t
            elif isinstance(cond, bool):
                goal = z3.BoolVal(cond)
            else:
                import numpy
                if isinstance(cond, numpy.bool_):
                    goal = z3.BoolVal(bool(cond))
                else:
                    raise EncodingGap(f'check {name}: condition of type {type(cond).__name__}')
            goal = z3.simplify(goal)
            if z3.is_true(goal):
                res['trivial'] += 1
                res['discharged'] += 1
                res['reach'][key] = res['reach'].get(key, 0) + 1
                return
            extra = []
            rounds = 0
            nodefs = bool(info.pop('_no_defs', False))
            while True:
                rounds += 1
                r, m, dt, s = prove((c.pc + c.axioms if nodefs else c.facts()) + extra, goal, q_timeout)
                res['solver_s'] += dt
                res['queries'] += 1
                if r == 'unsat':
                    res['discharged'] += 1
                    res['reach'][key] = res['reach'].get(key, 0) + 1
                    if len(res['samples']) < 6 and rounds == 1:
                        res['samples'].append({'config': cfg_name, 'check': name, 'path': ''.join('T' if d else 'F' for d in c.decisions),
                                               'goal': _short(goal), 'verdict': 'unsat', 'seconds': round(dt, 3)})
                    return
                if r != 'sat':
                    res['inconclusive'].append(f'{cfg_name}/{name}: solver {r} after {dt:.1f}s')
                    return
                vals = model_values(m, c.inputs)
                rep = replay_values(scen, cfg, vals, name)
                if not rep['reproduced'] and isinstance(cond, SB) and cond.rf is not None:
                    # the plain model sits on a floating-point boundary: ask for a violation with a margin
                    r2, m2, dt2, s2 = prove((c.pc + c.axioms if nodefs else c.facts()) + extra, z3.Not(cond.rf), q_timeout)
                    res['solver_s'] += dt2
                    res['queries'] += 1
                    if r2 == 'sat':
                        vals2 = model_values(m2, c.inputs)
                        rep2 = replay_values(scen, cfg, vals2, name)
                        if rep2['reproduced']:
                            vals, rep = vals2, rep2
                        else:
                            rep = dict(rep, detail=rep['detail'] + f'; robust model also not reproduced: {rep2["detail"]}')
                            vals = vals2
                    else:
                        rep = dict(rep, detail=rep['detail'] + f'; robust query: {r2}')
                if rep['reproduced']:
                    hit = match_known(known, prop, cfg_name, name, vals, rep)
                    rec = {'config': cfg_name, 'check': name, 'values': _jsonable(vals), 'observed': rep['detail'],
                           'info': {k: str(v) for k, v in info.items()}}
                    if hit is not None:
                        rec['known'] = hit['id']
                        if not any(h['known'] == hit['id'] for h in res['known_hits']):
                            res['known_hits'].append(rec)
                        w = hit.get('witness')
                        if w and rounds < 6:
                            wt = eval_witness(w, c.inputs, symbolic=True)
                            extra = extra + [z3.Not(wt)]
                            continue
                        res['discharged'] += 1     # decided: the only violations are the recorded finding
                        return
                    res['violations'].append(rec)
                    return
                res['inconclusive'].append(f'{cfg_name}/{name}: solver model did not reproduce on the real code '
                                           f'({rep["detail"]}); values={_jsonable(vals)}')
                return

        env.on_check = on_check
        status = 'ok'
        try:
            scen(env, cfg)
        except PathAbort:
            status = 'aborted'
            res['aborted_paths'] += 1
        except LimitHit as e:
            res['inconclusive'].append(f'{cfg_name}: limit: {e}')
            status = 'limit'
        except EncodingGap as e:
            tb = traceback.extract_tb(sys.exc_info()[2])
            where = next((f'{os.path.basename(f.filename)}:{f.lineno}' for f in reversed(tb) if 'opticomlib' in f.filename), '')
            res['inconclusive'].append(f'{cfg_name}: encoding gap: {e} {where}')
            status = 'gap'
        except ReplayTimeout:
            raise
        except Exception as e:
            # an exception the scenario did not expect: candidate violation "unexpected exception"
            status = 'exception'
            name = f'no-unexpected-exception'
            etxt = f'{type(e).__name__}: {e}'
            tbs = traceback.format_exc()
            r, s = core._check(c.facts(), [], q_timeout)
            res['obligations'] += 1
            if r == 'sat':
                vals = model_values(s.model(), c.inputs)
                rep = replay_values(scen, cfg, vals, name, expect_exception=type(e).__name__)
                if rep['reproduced']:
                    hit = match_known(known, prop, cfg_name, name, vals, rep)
                    rec = {'config': cfg_name, 'check': name, 'values': _jsonable(vals), 'observed': rep['detail'], 'info': {'exception': etxt}}
                    if hit is not None:
                        rec['known'] = hit['id']
                        if not any(h['known'] == hit['id'] for h in res['known_hits']):
                            res['known_hits'].append(rec)
                        res['discharged'] += 1
                    else:
                        res['violations'].append(rec)
                else:
                    res['inconclusive'].append(f'{cfg_name}: exception on a symbolic path did not reproduce: {etxt} ({rep["detail"]})\n{tbs}')
            elif r == 'unsat':
                res['discharged'] += 1          # infeasible path
            else:
                # the solver could neither find an input for this path nor refute it within the budget.  The path shows *which*
                # failure to look for: a bounded number of sampled inputs are run on the real library, and one that raises the
                # same exception there is a confirmed violation (reported as such); none found stays inconclusive
                found = None
                srng = _random.Random(20260927)
                for _ in range(int(limits.get('exception_samples', 40))):
                    e2 = run_concrete(scen, cfg, {}, 'real', rng=_random.Random(srng.random()))
                    if e2.status == 'exception' and str(e2.exc).startswith(type(e).__name__):
                        found = e2
                        break
                if found is not None:
                    vals = dict(found.used)
                    vals.update(dict(found.draw_log))
                    rec = {'config': cfg_name, 'check': name, 'values': _jsonable(vals),
                           'observed': f'real library: {found.exc} (input found by sampling along a symbolic path the solver could not decide)',
                           'info': {'exception': etxt}}
                    hit = match_known(known, prop, cfg_name, name, vals, {'reproduced': True})
                    if hit is not None:
                        rec['known'] = hit['id']
                        if not any(h['known'] == hit['id'] for h in res['known_hits']):
                            res['known_hits'].append(rec)
                    else:
                        res['violations'].append(rec)
                else:
                    res['inconclusive'].append(f'{cfg_name}: exception on a path of unknown feasibility: {etxt}')
        finally:
            set_ctx(None)
        if status == 'ok':
            res['feasible_paths'] += 1
        res['cut_paths'] = res.get('cut_paths', 0) + getattr(c, 'cuts', 0)
        res['solver_s'] += c.solver_time
        res['queries'] += c.queries
        res['unknown_feas'] += c.unknown_feas
        res['max_path_len'] = max(res['max_path_len'], len(c.decisions))
        work.extend(c.alternatives)
    res['wall_s'] = time.time() - t_start
    res['cross'] = {k: (list(v) if isinstance(v, list) else v) for k, v in CROSS.items()}
    for k in ('agree', 'cvc5_unknown', 'skipped'):
        CROSS[k] = 0
    CROSS['disagree'] = []
    CROSS['time'] = 0.0
    for dmsg in res['cross']['disagree']:
        res['inconclusive'].append('solver disagreement: ' + dmsg)
    return res


def _short(t, n=240):
    s = str(t).replace('\n', ' ')
    s = ' '.join(s.split())
    return s if len(s) <= n else s[:n] + '…'


def replay_values(scen, cfg, vals, check_name, expect_exception=None):
    env = run_concrete(scen, cfg, vals, 'real')
    if expect_exception is not None:
        if env.status == 'exception' and env.exc.startswith(expect_exception):
            return {'reproduced': True, 'detail': env.exc}
        if env.status == 'timeout':
            return {'reproduced': True, 'detail': 'timeout (non-termination)'}
        return {'reproduced': False, 'detail': f'status {env.status} {env.exc}'}
    for name, ok, info in env.checks:
        if name == check_name:
            if not ok:
                return {'reproduced': True, 'detail': f'check {name} is false on the real library'}
            return {'reproduced': False, 'detail': f'check {name} holds on the real library'}
    failed = [n for n, ok, _ in env.checks if not ok]
    if failed:
        # the check itself is only evaluable symbolically (it inspects recorded calls); on the real library the same
        # input makes an observable clause fail
        return {'reproduced': True, 'detail': f'on the real library the counterexample makes check {failed[0]!r} fail'}
    if env.status in ('exception', 'timeout'):
        # the real library failed before reaching the check: the counterexample manifests as a crash/hang
        return {'reproduced': True, 'detail': f'real library: {env.exc} before reaching {check_name}'}
    return {'reproduced': False, 'detail': f'check {check_name} not reached on the real library (status {env.status})'}


# ------------------------------------------------------------------------------------ known findings

def load_known():
    p = os.path.join(VERIF, 'known_findings.json')
    if not os.path.exists(p):
        return []
    return json.load(open(p)).get('findings', [])


def eval_witness(expr, inputs, symbolic, values=None):
    ns = {'And': z3.And, 'Or': z3.Or, 'Not': z3.Not} if symbolic else {
        'And': lambda *a: all(a), 'Or': lambda *a: any(a), 'Not': lambda a: not a}

    class V(dict):
        def __missing__(self, k):
            raise KeyError(k)
    src = inputs if symbolic else values
    ns['v'] = V(src)
    return eval(expr, ns)


def match_known(known, prop, cfg_name, check, vals, rep):
    import re
    for k in known or []:
        if k.get('status', 'open') != 'open':
            continue
        if k['property'] != prop:
            continue
        if not re.fullmatch(k.get('config', '.*'), cfg_name):
            continue
        if not re.fullmatch(k.get('check', '.*'), check):
            continue
        w = k.get('witness')
        if w:
            try:
                if not eval_witness(w, None, False, vals):
                    continue
            except KeyError:
                continue
        return k
    return None


# ------------------------------------------------------------------------------------ validation

def validate_config(scen, cfg, lib, seed, n=3, tries=40):
    """Differential validation of the translator/model on concrete inputs (DESIGN §4.2)."""
    ok, bad, msgs = 0, 0, []
    exc_agree = []
    slow = 0
    rng = _random.Random(seed)
    t = 0
    while ok + bad < n and t < tries:
        t += 1
        sub = _random.Random(rng.random())
        e1 = run_concrete(scen, cfg, {}, 'model', lib=lib, rng=sub)
        if e1.status == 'aborted':
            if e1.exc and 'time budget' in str(e1.exc):
                slow += 1
                if slow >= 3:           # exact-rational model runs of this scenario are too slow to be useful: do not burn 40 x 20 s
                    break
            continue
        vals = dict(e1.used)
        vals.update(dict(e1.draw_log))
        e2 = run_concrete(scen, cfg, vals, 'real')
        if e1.status == 'gap':
            bad += 1
            msgs.append(f'model gap on concrete input: {e1.exc}')
            continue
        if e1.status != e2.status or (e1.status == 'exception' and e1.exc.split(':')[0] != e2.exc.split(':')[0]):
            bad += 1
            msgs.append(f'status model={e1.status} {e1.exc} real={e2.status} {e2.exc} values={_jsonable(vals)}'
                        + (('\n' + e1.tb) if getattr(e1, 'tb', None) else '') + (('\n' + e2.tb) if getattr(e2, 'tb', None) else ''))
            continue
        if e1.status == 'exception':
            # model and real library raise the same exception before the scenario finishes: the model agrees, but the sample
            # validates none of the checks; an uncaught exception on a valid random input needs attention either way
            exc_agree.append(f'{e1.exc} values={_jsonable(vals)}')
            continue
        agree, why = traces_agree(e1.trace, e2.trace)
        d2 = {n_: o for n_, o, _ in e2.checks}
        c1 = [(n_, o) for n_, o, _ in e1.checks if n_ in d2]
        c2 = [(n_, d2[n_]) for n_, o in c1]
        if not agree or c1 != c2:
            bad += 1
            msgs.append(f'trace mismatch: {why or [x for x in zip(c1, c2) if x[0] != x[1]][:3]} values={_jsonable(vals)}')
            continue
        ok += 1
    if exc_agree and ok == 0:
        # every sample ended in the same uncaught exception on both sides: nothing was validated, and either the scenario draws
        # inputs outside the documented precondition or the library fails on valid ones
        bad += 1
        msgs.append(f'no validation sample completed: uncaught exception on {len(exc_agree)} random input(s), on the model and on the real library alike: {exc_agree[0]}')
    return ok, bad, msgs
