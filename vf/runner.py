"""Command-line driver: ./check <ID> [--tier quick|thorough] [--replay FILE]"""
from __future__ import annotations
import argparse
import hashlib
import importlib
import json
import multiprocessing as mp
import os
import sys
import time
import traceback

VERIF = os.path.dirname(os.path.dirname(os.path.abspath(__file__)))
REPO = os.environ.get('VERIF_REPO', '/repo')

_lib = None


def _get_lib():
    global _lib
    if _lib is None:
        from .loader import Library
        _lib = Library(REPO)
    return _lib


def _run_one(job):
    """Worker: validation + symbolic exploration of one configuration."""
    prop_id, idx, tier, seed = job
    from . import engine
    if tier == 'thorough':
        engine.CROSS['on'] = True
    mod = importlib.import_module(f'vf.props.{prop_id}')
    name, scen, cfg, opts = mod.configs(tier)[idx]
    t0 = time.time()
    out = {'config': name}
    try:
        lib = _get_lib()
        nval = opts.get('validate', 2)
        ok, bad, msgs = (0, 0, [])
        if nval:
            ok, bad, msgs = engine.validate_config(scen, cfg, lib, seed * 7919 + idx, n=nval)
        out['validated'] = ok
        out['validation_failures'] = msgs
        limits = dict(getattr(mod, 'LIMITS', {}))
        limits.update(opts.get('limits', {}))
        res = engine.run_symbolic(scen, cfg, lib, limits=limits, known=engine.load_known(), prop=prop_id, cfg_name=name)
        out.update(res)
        if not res.get('obligations'):
            out.setdefault('inconclusive', []).append(f'{name}: vacuity: no obligation was reached on any path')
        if opts.get('expect_reach'):
            for chk in opts['expect_reach']:
                if not res['reach'].get(chk):
                    out.setdefault('inconclusive', []).append(f'{name}: vacuity: check {chk!r} was never reached')
    except BaseException as e:      # noqa
        out.setdefault('inconclusive', []).append(f'{name}: harness error {type(e).__name__}: {e}\n{traceback.format_exc()}')
    out['wall_s'] = time.time() - t0
    return out


def run_property(prop_id, tier, seed, jobs=None, only=None):
    from . import engine, loader
    t0 = time.time()
    mod = importlib.import_module(f'vf.props.{prop_id}')
    cfgs = mod.configs(tier)
    idxs = [i for i, c in enumerate(cfgs) if only is None or only in c[0]]
    jobs = jobs or min(16, os.cpu_count() or 4)
    work = [(prop_id, i, tier, seed) for i in idxs]
    results = []
    if jobs == 1 or len(work) == 1:
        for w in work:
            results.append(_run_one(w))
    else:
        ctxm = mp.get_context('fork')
        with ctxm.Pool(min(jobs, len(work))) as pool:
            for r in pool.imap_unordered(_run_one, work, chunksize=1):
                results.append(r)
    results.sort(key=lambda r: r['config'])
    # ---- aggregate
    agg = dict(paths=0, obligations=0, discharged=0, trivial=0, solver_s=0.0, queries=0, validated=0, cut_paths=0)
    violations, known_hits, inconclusive, samples, valfail = [], [], [], [], []
    reach = {}
    cross = {'agree': 0, 'cvc5_unknown': 0, 'skipped': 0, 'disagree': 0, 'time': 0.0}
    for r in results:
        cx = r.get('cross') or {}
        for k in ('agree', 'cvc5_unknown', 'skipped'):
            cross[k] += cx.get(k, 0)
        cross['disagree'] += len(cx.get('disagree', []))
        cross['time'] += cx.get('time', 0.0)
        for k in ('paths', 'obligations', 'discharged', 'trivial', 'queries', 'validated', 'cut_paths'):
            agg[k] += r.get(k, 0)
        agg['solver_s'] += r.get('solver_s', 0.0)
        violations += r.get('violations', [])
        for h in r.get('known_hits', []):
            if not any(x['known'] == h['known'] for x in known_hits):
                known_hits.append(h)
        inconclusive += r.get('inconclusive', [])
        valfail += [f"{r['config']}: {m}" for m in r.get('validation_failures', [])]
        samples += r.get('samples', [])[:2]
        for k, v in r.get('reach', {}).items():
            reach[k] = reach.get(k, 0) + v
    funcs = []
    for m, q in getattr(mod, 'FUNCTIONS', []):
        try:
            funcs.append(loader.function_info(REPO, m, q))
        except Exception as e:
            inconclusive.append(f'function {m}.{q} not found in the working tree: {e}')
    # ---- replays for violations
    rdir = os.environ.get('VERIF_REPLAY_DIR') or os.path.join(VERIF, 'replays')
    os.makedirs(rdir, exist_ok=True)
    lines = []
    for v in violations:
        h = hashlib.sha256(json.dumps([v['config'], v['check'], v['values']], sort_keys=True).encode()).hexdigest()[:10]
        path = os.path.join(rdir, f'{prop_id}-{h}.json')
        json.dump({'property': prop_id, 'config': v['config'], 'check': v['check'], 'values': v['values'],
                   'observed': v['observed'], 'tier': tier}, open(path, 'w'), indent=1)
        v['replay'] = path
        lines.append(f'VIOLATION property={prop_id} replay={path}')
    known_all = engine.load_known()
    for h in known_hits:
        k = next(x for x in known_all if x['id'] == h['known'])
        print(f"KNOWN-FINDING: property={prop_id} {k['text']}")
    wall = time.time() - t0
    status = 'violation' if violations else ('inconclusive' if (inconclusive or valfail) else 'holds')
    if not samples:
        samples = [{'note': 'no solver obligation was needed (all conditions folded to constants)'}]
    ev = {
        'property_id': prop_id, 'tier': tier, 'seed': seed, 'level': 'model_checking',
        'coverage': {
            'states': max(1, agg['paths']),
            'transitions': max(1, agg['discharged']),
            'traces_validated_against_impl': agg['validated'],
            'samples': samples[:12],
            'obligations': agg['obligations'], 'discharged': agg['discharged'], 'trivially_true': agg['trivial'],
            'solver_queries': agg['queries'], 'solver_time_s': round(agg['solver_s'], 2),
            'configurations': len(results),
            'paths_cut_at_unrolling_bound': agg['cut_paths'],
            'functions_encoded': funcs,
            'bounds': getattr(mod, 'BOUNDS', {}),
            'outside_claim': getattr(mod, 'OUTSIDE', []),
            'checks_reached': reach,
            'known_findings_hit': [h['known'] for h in known_hits],
            'inconclusive': inconclusive[:20],
            'validation_failures': valfail[:10],
            'per_config': [{k: r.get(k) for k in ('config', 'paths', 'obligations', 'discharged', 'solver_s', 'wall_s', 'validated')} for r in results],
            'status': status,
            'solver': f'z3 {_z3v()}',
            'cvc5_cross_check': ({'agreed': cross['agree'], 'cvc5_unknown_or_timeout': cross['cvc5_unknown'], 'not_parsed': cross['skipped'],
                                  'disagreements': cross['disagree'], 'cvc5_time_s': round(cross['time'], 1)} if tier == 'thorough' else 'thorough tier only'),
            'repo': REPO,
        },
        'assumptions': list(getattr(mod, 'ASSUMPTIONS', [])) + COMMON_ASSUMPTIONS,
        'wall_s': round(wall, 2),
        'violations': len(violations),
    }
    if os.environ.get('VERIF_NO_EVIDENCE') != '1':
        os.makedirs(os.path.join(VERIF, 'evidence'), exist_ok=True)
        json.dump(ev, open(os.path.join(VERIF, 'evidence', f'{prop_id}.json'), 'w'), indent=1, default=str)
    for l in lines:
        print(l)
    print(f'[{prop_id}] tier={tier} configs={len(results)} paths={agg["paths"]} obligations={agg["obligations"]} '
          f'discharged={agg["discharged"]} validated={agg["validated"]} solver={agg["solver_s"]:.1f}s wall={wall:.1f}s -> {status}')
    if violations:
        for v in violations[:10]:
            print(f'  violation: {v["config"]} / {v["check"]}: {v["observed"]}')
        for m in (inconclusive + valfail)[:8]:
            print('  inconclusive:', m[:800])
        return 1
    if inconclusive or valfail:
        for m in (inconclusive + valfail)[:15]:
            print('  inconclusive:', m[:1500])
        return 2
    return 0


COMMON_ASSUMPTIONS = [
    'floating-point arithmetic is modelled as exact real arithmetic; literals by their decimal text (DESIGN §2.1)',
    'numpy/scipy behave as the SymNP model (validated on this run by differential execution on concrete inputs, DESIGN §4.2)',
    'transcendental functions are fresh variables constrained by the axiom table of DESIGN §1.5',
    'a division by / log / sqrt of a symbolic value is assumed defined (divisor != 0, argument in the domain) by the ordinary obligations of that path; '
    'whether the undefined case is reachable is decided only where a definedness obligation is posted (C08 FIBER, C18 ADC). Symbolic array indices are not assumed in range: they fork.',
]


def _z3v():
    import z3
    return z3.get_version_string()


def replay_file(prop_id, path):
    from . import engine
    mod = importlib.import_module(f'vf.props.{prop_id}')
    rec = json.load(open(path))
    cfgs = {c[0]: c for c in mod.configs(rec.get('tier', 'thorough'))}
    if rec['config'] not in cfgs:
        cfgs = {c[0]: c for c in mod.configs('quick')}
    name, scen, cfg, opts = cfgs[rec['config']]
    vals = engine._unjson(rec['values'])
    check = rec['check']
    rep = engine.replay_values(scen, cfg, vals, check,
                               expect_exception=rec['observed'].split(':')[0] if check == 'no-unexpected-exception' else None)
    print(f'replay {path}: config={name} check={check}: ' + ('REPRODUCED: ' if rep['reproduced'] else 'not reproduced: ') + rep['detail'])
    if rep['reproduced']:
        print(f'VIOLATION property={prop_id} replay={path}')
        return 1
    return 0


def main(argv=None):
    ap = argparse.ArgumentParser()
    ap.add_argument('prop')
    ap.add_argument('--tier', default=os.environ.get('VERIF_TIER', 'quick'))
    ap.add_argument('--replay')
    ap.add_argument('--jobs', type=int, default=None)
    ap.add_argument('--only', default=None)
    a = ap.parse_args(argv)
    seed = int(os.environ.get('VERIF_SEED', '0') or 0)
    if a.prop == 'selftest':
        from . import selftest
        return selftest.main(a.tier)
    if a.replay:
        return replay_file(a.prop, a.replay)
    return run_property(a.prop, a.tier, seed, a.jobs, a.only)


if __name__ == '__main__':
    sys.exit(main())
