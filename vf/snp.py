"""SymNP: a model of the numpy surface used by opticomlib whose arrays hold exact/symbolic scalars.

An `ndarray` wraps a *real* numpy object array (`_a`): all shape logic, broadcasting, basic
indexing, views and aliasing are numpy's own; only the element arithmetic is symbolic.  A dtype
tag (bool/uint8/int/float/complex/str) is carried beside it and follows numpy's promotion rules.
"""
from __future__ import annotations
import builtins
import math
import operator
from fractions import Fraction as Fr

import numpy as _np
import z3

from . import core, tf
from .core import (R, C, SI, SB, BV, EncodingGap, ite, sb_and, sb_or, sb_not, ctx, have_ctx,
                   is_symbolic, event, ZERO, ONE)

# fixed-width integer dtypes: (signed, bits).  'int' is int64 and is kept as a mathematical integer (no wrap-around modelled:
# 64-bit overflow is outside every bound used); the narrow ones wrap exactly like numpy's.
INT_W = {'uint8': (False, 8), 'int8': (True, 8), 'uint16': (False, 16), 'int16': (True, 16), 'uint32': (False, 32), 'int32': (True, 32)}
INT_TAGS = set(INT_W) | {'int'}
RANK = {'bool': 0, 'uint8': 1, 'int8': 1.05, 'uint16': 1.2, 'int16': 1.25, 'uint32': 1.4, 'int32': 1.45, 'int': 2, 'float': 3, 'complex': 4}
NAMES = {'bool': 'bool', 'uint8': 'uint8', 'int8': 'int8', 'uint16': 'uint16', 'int16': 'int16', 'uint32': 'uint32', 'int32': 'int32',
         'int': 'int64', 'float': 'float64', 'complex': 'complex128', 'str': '<U1', 'object': 'object'}


def _iwrap(v, tag):
    """two's complement / modular reduction of an integer value into the range of a narrow integer dtype."""
    if tag not in INT_W:
        return v
    signed, w = INT_W[tag]
    m = 1 << w
    if isinstance(v, int):
        return ((v + (m >> 1)) % m - (m >> 1)) if signed else v % m
    if signed:
        return (v + (m >> 1)) % m - (m >> 1)
    return v % m


def _int_range(tag):
    signed, w = INT_W[tag]
    return (-(1 << (w - 1)), (1 << (w - 1)) - 1) if signed else (0, (1 << w) - 1)


def _int_promote(a, b):
    """numpy's result type of two integer dtypes."""
    if a == b:
        return a
    sa, wa = INT_W.get(a, (True, 64))
    sb_, wb = INT_W.get(b, (True, 64))
    if sa == sb_:
        w, sg = max(wa, wb), sa
    else:
        wu, ws = (wa, wb) if not sa else (wb, wa)
        sg = True
        w = ws if ws > wu else 2 * wu
    if w >= 64:
        return 'int'
    return {(True, 8): 'int8', (True, 16): 'int16', (True, 32): 'int32', (False, 8): 'uint8', (False, 16): 'uint16', (False, 32): 'uint32'}[(sg, w)]


def _min_int_tag(v):
    """np.min_scalar_type of a concrete Python int (value-based casting of scalars against integer arrays, numpy 1.x)."""
    if v >= 0:
        return 'uint8' if v < 256 else 'uint16' if v < 65536 else 'uint32' if v < (1 << 32) else 'int'
    return 'int8' if v >= -128 else 'int16' if v >= -32768 else 'int32' if v >= -(1 << 31) else 'int'


class DT:
    """dtype object / scalar type of the model (np.uint8, np.float64, arr.dtype ...)."""

    def __init__(self, tag):
        self.tag = tag
        self.name = NAMES[tag]
        self.kind = {'bool': 'b', 'int': 'i', 'float': 'f', 'complex': 'c', 'str': 'U',
                     'object': 'O'}.get(tag) or ('i' if INT_W[tag][0] else 'u')

    def __eq__(self, o):
        try:
            return self.tag == dt_tag(o)
        except (TypeError, EncodingGap):
            return False

    def __ne__(self, o):
        return not self.__eq__(o)

    def __hash__(self):
        return hash(self.tag)

    def __repr__(self):
        return f"dtype('{self.name}')"

    def __str__(self):
        return self.name

    def __call__(self, x=0):
        if isinstance(x, ndarray):
            return x.astype(self)
        if isinstance(x, (list, tuple)):
            return array(x, dtype=self)
        return cast(x, self.tag)

    @property
    def type(self):
        return self


_DTS = {t: DT(t) for t in NAMES}


def dt_tag(d):
    if d is None:
        return None
    if isinstance(d, DT):
        return d.tag
    if d is bool:
        return 'bool'
    if d is int:
        return 'int'
    if d is float:
        return 'float'
    if d is complex:
        return 'complex'
    if d is str:
        return 'str'
    if d is object:
        return 'object'
    if isinstance(d, str):
        m = {'bool': 'bool', 'uint8': 'uint8', 'int': 'int', 'int64': 'int', 'float': 'float',
             'float64': 'float', 'complex': 'complex', 'complex128': 'complex', 'str': 'str',
             'int8': 'int8', 'int16': 'int16', 'int32': 'int32', 'uint16': 'uint16', 'uint32': 'uint32'}
        if d in m:
            return m[d]
    if isinstance(d, _np.dtype) or (isinstance(d, type) and issubclass(d, _np.generic)):
        dd = _np.dtype(d)
        if dd.name in NAMES and dd.name in INT_W:
            return dd.name
        if dd.kind == 'u':
            raise EncodingGap(f'dtype {dd.name}')
        return {'b': 'bool', 'i': 'int', 'f': 'float', 'c': 'complex'}[dd.kind]
    raise TypeError(f'data type {d!r} not understood')


def scalar_tag(v):
    if hasattr(v, '__vf_scalar__') and not isinstance(v, ndarray):
        v = v.__vf_scalar__()
    if isinstance(v, (bool, SB, _np.bool_)):
        return 'bool'
    if isinstance(v, (int, SI, BV, _np.integer)):
        return 'int'
    if isinstance(v, (float, Fr, R, _np.floating)):
        return 'float'
    if isinstance(v, (complex, C, _np.complexfloating)):
        return 'complex'
    if isinstance(v, str):
        return 'str'
    raise EncodingGap(f'value of type {type(v).__name__} inside an array')


def cast(v, tag):
    """Convert one scalar to the element representation of dtype `tag` (numpy's casting rules)."""
    if isinstance(v, ndarray):
        if v.ndim == 0:
            v = v._a[()]
        else:
            raise ValueError('setting an array element with a sequence.')
    if isinstance(v, _np.generic):
        v = v.item()
    if hasattr(v, '__vf_scalar__'):
        v = v.__vf_scalar__()
    if isinstance(v, str) and tag != 'str':
        s = v.strip()
        if tag == 'complex':
            return core.vf_complex(s.replace('i', 'j'))
        if tag == 'float':
            return core.vf_float(s)
        if tag in INT_TAGS:
            return _iwrap(int(s), tag)
        if tag == 'bool':
            return bool(int(s))       # numpy parses the text as an integer first
    if tag == 'bool':
        if isinstance(v, (bool, SB)):
            return v
        if isinstance(v, int):
            return v != 0
        if isinstance(v, (SI, BV)):
            return v != 0
        if isinstance(v, (R, float, Fr)):
            return R.of(v) != 0
        if isinstance(v, (C, complex)):
            return C.of(v) != 0
    elif tag in INT_TAGS:
        if isinstance(v, bool):
            return int(v)
        if isinstance(v, int):
            return _iwrap(v, tag)
        if isinstance(v, BV):
            return v
        if isinstance(v, SI):
            return _iwrap(v, tag)
        if isinstance(v, SB):
            return v.as_int()
        if isinstance(v, (R, float, Fr)):
            return _iwrap(core.trunc(R.of(v)), tag)
        if isinstance(v, (C, complex)):
            event('warn', 'ComplexWarning: Casting complex values to real discards the imaginary part')
            return cast(C.of(v).re, tag)
    elif tag == 'float':
        if isinstance(v, R):
            return v
        if isinstance(v, (bool, int, float, Fr, SI, SB)):
            return R.of(v)
        if isinstance(v, (C, complex)):
            event('warn', 'ComplexWarning: Casting complex values to real discards the imaginary part')
            return C.of(v).re
        if isinstance(v, BV):
            raise EncodingGap('BV to float')
    elif tag == 'complex':
        if isinstance(v, BV):
            raise EncodingGap('BV to complex')
        return C.of(v)
    elif tag == 'str':
        if isinstance(v, str):
            return v
        if isinstance(v, bool):
            return str(v)
        if isinstance(v, int):
            return str(v)
        if isinstance(v, (SI, SB, R, C, BV)) and is_symbolic(v):
            return core.placeholder(v, '')
        return str(v)
    elif tag == 'object':
        return v
    raise EncodingGap(f'cast of {type(v).__name__} to {tag}')


def _scalar_astype(v, dt):
    return cast(v, dt_tag(dt))


def promote(*tags):
    tags = [t for t in tags if t is not None]
    if 'str' in tags:
        if all(t == 'str' for t in tags):
            return 'str'
        raise EncodingGap('mixing strings and numbers in one array')
    if 'object' in tags:
        return 'object'
    r = tags[0]
    for t in tags[1:]:
        if r in INT_TAGS and t in INT_TAGS:
            r = _int_promote(r, t)
        else:
            r = max((r, t), key=lambda u: RANK[u])
    return r


def _obj(shape):
    return _np.empty(shape, dtype=object)


def _fill(shape, items):
    a = _obj(shape)
    flat = a.reshape(-1) if a.ndim else None
    if flat is None:
        a[()] = items[0]
    else:
        for i, v in enumerate(items):
            flat[i] = v
    return a


_newbuf_log = None


def _index_guard(idxs, n):
    """numpy raises IndexError for an index outside [-n, n): a symbolic index forks the path on that condition
    (the out-of-range side is explored when feasible, and ends in the same exception)."""
    conds = []
    for ix in idxs:
        if isinstance(ix, int):
            if not -n <= ix < n:
                raise IndexError(f'index {ix} is out of bounds for axis 0 with size {n}')
            continue
        conds += [ix >= -n, ix < n]
    if not conds:
        return
    event('index', (len(conds) // 2, n))
    ok = sb_and(conds)
    if n == 0 or not ok:
        raise IndexError(f'index is out of bounds for axis 0 with size {n}')
    if isinstance(ok, SB):
        ctx().pc.append(ok.t)          # we are on the in-range side: keep the (possibly context-free) fact for later queries


class ndarray:
    __array_priority__ = 2000
    __hash__ = None

    def __init__(self, a, tag):
        self._a = a
        self._tag = tag

    # ------------------------------------------------------------ basic attributes
    @property
    def dtype(self):
        return _DTS[self._tag]

    @property
    def shape(self):
        return self._a.shape

    @property
    def ndim(self):
        return self._a.ndim

    @property
    def size(self):
        return int(self._a.size)

    def __len__(self):
        if self._a.ndim == 0:
            raise TypeError('len() of unsized object')
        return self._a.shape[0]

    def flat_list(self):
        return list(self._a.reshape(-1)) if self._a.ndim else [self._a[()]]

    def base_id(self):
        b = self._a
        while b.base is not None:
            b = b.base
        return id(b)

    @property
    def T(self):
        return ndarray(self._a.T, self._tag)

    @property
    def real(self):
        if self._tag == 'complex':
            return _map(lambda z: z.re, self, 'float')
        return ndarray(self._a, self._tag)

    @property
    def imag(self):
        if self._tag == 'complex':
            return _map(lambda z: z.im, self, 'float')
        return zeros(self.shape, dtype=self._tag)

    @property
    def flat(self):
        return iter(self.flat_list())

    def __iter__(self):
        if self._a.ndim == 0:
            raise TypeError('iteration over a 0-d array')
        for i in range(self._a.shape[0]):
            yield self[i]

    def tolist(self):
        def conv(x):
            if isinstance(x, _np.ndarray):
                return [conv(y) for y in x]
            return x
        if self._a.ndim == 0:
            return self._a[()]
        return [conv(x) for x in self._a]

    def item(self, *a):
        if a:
            return self._a.reshape(-1)[a[0]]
        if self.size != 1:
            raise ValueError('can only convert an array of size 1 to a Python scalar')
        return self.flat_list()[0]

    def __repr__(self):
        return f'snp.array({self.tolist()!r}, dtype={self.dtype.name})'

    def __str__(self):
        def one(v):
            if is_symbolic(v):
                return core.placeholder(v, '')
            if isinstance(v, R):
                return repr(float(v.n))
            if isinstance(v, C):
                return repr(complex(v))
            if isinstance(v, bool):
                return str(v)
            return str(v)
        def rec(x):
            if isinstance(x, _np.ndarray):
                return '[' + ' '.join(rec(y) for y in x) + ']'
            return one(x)
        if self._a.ndim == 0:
            return one(self._a[()])
        return rec(self._a)

    def __format__(self, spec):
        if spec == '':
            return str(self)
        if self._a.ndim == 0:
            return format(self._a[()], spec)
        raise TypeError('unsupported format string passed to numpy.ndarray.__format__')

    def __bool__(self):
        if self.size == 1:
            return bool(self.flat_list()[0])
        if self.size == 0:
            return False
        raise ValueError('The truth value of an array with more than one element is ambiguous. '
                         'Use a.any() or a.all()')

    def __index__(self):
        if self.size == 1 and self._tag in INT_TAGS and self._a.ndim == 0:
            return operator.index(self._a[()])
        raise TypeError('only integer scalar arrays can be converted to a scalar index')

    def __int__(self):
        if self.size == 1:
            return core.vf_int(self.flat_list()[0])
        raise TypeError('only length-1 arrays can be converted to Python scalars')

    def __float__(self):
        if self.size == 1:
            return float(self.flat_list()[0])
        raise TypeError('only length-1 arrays can be converted to Python scalars')

    def __vf_scalar__(self):
        if self.size == 1:
            return self.flat_list()[0]
        raise TypeError('only length-1 arrays can be converted to Python scalars')

    # ------------------------------------------------------------ copies / casts / shape
    def copy(self):
        return ndarray(self._a.copy(), self._tag)

    def astype(self, dt, copy=True):
        tag = dt_tag(dt)
        if tag == self._tag and not copy:
            return self
        return _map(lambda v: cast(v, tag), self, tag)

    def reshape(self, *shape, **kw):
        if len(shape) == 1 and isinstance(shape[0], (tuple, list)):
            shape = tuple(shape[0])
        shape = tuple(operator.index(s) for s in shape)
        return ndarray(self._a.reshape(shape), self._tag)

    def ravel(self):
        return ndarray(self._a.ravel(), self._tag)

    def flatten(self):
        return ndarray(self._a.flatten(), self._tag)

    def squeeze(self):
        return ndarray(self._a.squeeze(), self._tag)

    def transpose(self, *a):
        return ndarray(self._a.transpose(*a), self._tag)

    def conj(self):
        if self._tag == 'complex':
            return _map(lambda z: z.conjugate(), self, 'complex')
        return self.copy()
    conjugate = conj

    # ------------------------------------------------------------ indexing
    def _key(self, key):
        """Translate an index: returns (numpy_key, is_basic) or raises _SymIndex for symbolic gathers."""
        tup = key if isinstance(key, tuple) else (key,)
        out, basic = [], True
        for k in tup:
            if isinstance(k, ndarray):
                basic = False
                if k._tag == 'bool':
                    out.append(_np.array([bool(v) for v in k.flat_list()], dtype=bool).reshape(k.shape))
                elif k._tag in INT_TAGS:
                    fl = k.flat_list()
                    if any(isinstance(v, (SI, BV)) for v in fl):
                        raise _SymIndex()
                    out.append(_np.array([int(v) for v in fl], dtype=int).reshape(k.shape))
                else:
                    raise IndexError('arrays used as indices must be of integer (or boolean) type')
            elif isinstance(k, (list,)):
                basic = False
                arr = array(k)
                return self._key(tuple(arr if x is k else x for x in tup))
            elif isinstance(k, SI):
                raise _SymIndex()
            elif isinstance(k, (R, C, float)):
                raise IndexError('only integers, slices (`:`), ellipsis (`...`), numpy.newaxis (`None`) '
                                 'and integer or boolean arrays are valid indices')
            elif isinstance(k, SB):
                raise EncodingGap('symbolic Boolean scalar index')
            else:
                out.append(k)
        return (tuple(out) if isinstance(key, tuple) else out[0]), basic

    def __getitem__(self, key):
        try:
            nk, basic = self._key(key)
        except _SymIndex:
            return self._sym_get(key)
        r = self._a[nk]
        if isinstance(r, _np.ndarray):
            return ndarray(r, self._tag)
        return r

    def _sym_get(self, key):
        if self._a.ndim != 1 or isinstance(key, tuple):
            raise EncodingGap('symbolic index into a non 1-D array')
        items = self.flat_list()
        n = len(items)

        def gather(ix):
            if isinstance(ix, int):
                return items[ix]
            res = items[n - 1]
            for p in range(n - 2, -1, -1):
                res = ite(sb_or([ix == p, ix == p - n]), items[p], res)
            return res
        if isinstance(key, SI):
            _index_guard([key], n)
            return gather(key)
        _index_guard(key.flat_list(), n)
        out = [gather(ix) for ix in key.flat_list()]
        return ndarray(_fill(key.shape, out), self._tag)

    def __setitem__(self, key, val):
        event('write', self.base_id())
        try:
            nk, basic = self._key(key)
        except _SymIndex:
            return self._sym_set(key, val)
        tag = self._tag
        if isinstance(val, ndarray):
            v = _np.frompyfunc(lambda x: cast(x, tag), 1, 1)(val._a) if val.size else val._a
            if not isinstance(v, _np.ndarray):
                vv = _obj(())
                vv[()] = v
                v = vv
            self._a[nk] = v
        elif isinstance(val, (list, tuple)):
            self.__setitem__(key, array(val))
        else:
            self._a[nk] = cast(val, tag)

    def _sym_set(self, key, val):
        if self._a.ndim != 1 or isinstance(key, tuple):
            raise EncodingGap('symbolic index store into a non 1-D array')
        n = self._a.shape[0]
        idxs = [key] if isinstance(key, SI) else key.flat_list()
        if isinstance(val, ndarray):
            vals = [cast(v, self._tag) for v in val.flat_list()]
            if len(vals) == 1:
                vals = vals * len(idxs)
        elif isinstance(val, (list, tuple)):
            vals = [cast(v, self._tag) for v in val]
        else:
            vals = [cast(val, self._tag)] * len(idxs)
        if len(vals) != len(idxs):
            raise ValueError('shape mismatch: value array could not be broadcast to indexing result')
        _index_guard(idxs, n)
        for ix, v in zip(idxs, vals):
            if isinstance(ix, int):
                self._a[ix] = v
                continue
            for p in range(n):
                self._a[p] = ite(sb_or([ix == p, ix == p - n]), v, self._a[p])

    # ------------------------------------------------------------ arithmetic
    def __add__(self, o): return _binop('add', self, o)
    def __radd__(self, o): return _binop('add', o, self)
    def __sub__(self, o): return _binop('sub', self, o)
    def __rsub__(self, o): return _binop('sub', o, self)
    def __mul__(self, o): return _binop('mul', self, o)
    def __rmul__(self, o): return _binop('mul', o, self)
    def __truediv__(self, o): return _binop('div', self, o)
    def __rtruediv__(self, o): return _binop('div', o, self)
    def __floordiv__(self, o): return _binop('floordiv', self, o)
    def __rfloordiv__(self, o): return _binop('floordiv', o, self)
    def __mod__(self, o): return _binop('mod', self, o)
    def __rmod__(self, o): return _binop('mod', o, self)
    def __pow__(self, o): return _binop('pow', self, o)
    def __rpow__(self, o): return _binop('pow', o, self)
    def __and__(self, o): return _binop('and', self, o)
    def __rand__(self, o): return _binop('and', o, self)
    def __or__(self, o): return _binop('or', self, o)
    def __ror__(self, o): return _binop('or', o, self)
    def __xor__(self, o): return _binop('xor', self, o)
    def __rxor__(self, o): return _binop('xor', o, self)
    def __lt__(self, o): return _binop('lt', self, o)
    def __le__(self, o): return _binop('le', self, o)
    def __gt__(self, o): return _binop('gt', self, o)
    def __ge__(self, o): return _binop('ge', self, o)
    def __eq__(self, o): return _binop('eq', self, o)
    def __ne__(self, o): return _binop('ne', self, o)

    def _inplace(self, op, o):
        r = _binop(op, self, o)
        if RANK.get(r._tag, 9) > RANK.get(self._tag, 9):
            raise UFuncTypeError(f"Cannot cast ufunc '{op}' output from dtype('{r.dtype.name}') to "
                            f"dtype('{self.dtype.name}') with casting rule 'same_kind'")
        event('write', self.base_id())
        tag = self._tag
        self._a[...] = _np.frompyfunc(lambda x: cast(x, tag), 1, 1)(r._a) if r.size else r._a
        return self

    def __iadd__(self, o): return self._inplace('add', o)
    def __isub__(self, o): return self._inplace('sub', o)
    def __imul__(self, o): return self._inplace('mul', o)
    def __itruediv__(self, o): return self._inplace('div', o)

    def __neg__(self):
        if self._tag == 'bool':
            raise TypeError('The numpy boolean negative, the `-` operator, is not supported')
        if self._tag in INT_W:
            t = self._tag
            return _map(lambda v: _iwrap(-v, t), self, t)
        return _map(operator.neg, self, self._tag)

    def __pos__(self):
        return self.copy()

    def __abs__(self):
        return absolute(self)

    def __invert__(self):
        if self._tag == 'bool':
            return _map(sb_not, self, 'bool')
        if self._tag in INT_W and not INT_W[self._tag][0]:
            top = (1 << INT_W[self._tag][1]) - 1
            return _map(lambda v: top - v, self, self._tag)
        if self._tag in INT_TAGS:
            return _map(lambda v: -v - 1, self, self._tag)
        raise TypeError("ufunc 'invert' not supported for the input types")

    # ------------------------------------------------------------ reductions / methods
    def sum(self, axis=None, **kw): return np_sum(self, axis=axis, **kw)
    def mean(self, axis=None, **kw): return mean(self, axis=axis, **kw)
    def std(self, axis=None, **kw): return std(self, axis=axis, **kw)
    def max(self, axis=None, **kw): return amax(self, axis=axis, **kw)
    def min(self, axis=None, **kw): return amin(self, axis=axis, **kw)
    def argmax(self, axis=None): return argmax(self, axis=axis)
    def argmin(self, axis=None): return argmin(self, axis=axis)
    def any(self, axis=None): return np_any(self, axis=axis)
    def all(self, axis=None): return np_all(self, axis=axis)
    def clip(self, a_min=None, a_max=None): return clip(self, a_min, a_max)
    def cumsum(self, axis=None): return cumsum(self, axis=axis)
    def round(self, decimals=0): return round_(self, decimals)
    def nonzero(self): return where(self)
    def dot(self, o): return dot(self, o)
    def fill(self, v):
        self[...] = v

    def view(self, *a, **k):
        return ndarray(self._a.view(), self._tag)

    def __setattr__(self, k, v):
        if k == 'shape':
            self._a.shape = v
            return
        object.__setattr__(self, k, v)


class _SymIndex(Exception):
    pass


class UFuncTypeError(TypeError):
    pass


core.register_ndarray(ndarray)

newaxis = None
pi = None          # set by the loader (symbolic PI or the double)
inf = float('inf')
nan = float('nan')
e = R(Fr(math.e))


# ---------------------------------------------------------------------------- helpers

def _wrap(r, tag):
    if isinstance(r, _np.ndarray):
        return ndarray(r, tag)
    return r


def _map(f, a, tag):
    """Apply f to every element of a; result has dtype `tag`."""
    if a._a.size == 0:
        return ndarray(_obj(a._a.shape), tag)
    out = _obj(a._a.shape)
    if a._a.ndim == 0:
        out[()] = f(a._a[()])
    else:
        src = a._a.reshape(-1) if a._a.flags.c_contiguous else a._a.flatten()
        dst = out.reshape(-1)
        for i in range(src.shape[0]):
            dst[i] = f(src[i])
    return ndarray(out, tag)


def _as_nd(x, dtype=None):
    if isinstance(x, ndarray):
        return x
    return array(x, dtype=dtype)


def _operand(x):
    """(numpy object array or scalar, tag, is_array)."""
    if isinstance(x, ndarray):
        return x._a, x._tag, True
    if isinstance(x, (list, tuple)):
        a = array(x)
        return a._a, a._tag, True
    if isinstance(x, _np.ndarray):
        a = array(x)
        return a._a, a._tag, True
    if isinstance(x, _np.generic):
        x = x.item()
    if x is None:
        raise TypeError("unsupported operand type(s): 'NoneType'")
    if hasattr(x, '__vf_scalar__'):
        x = x.__vf_scalar__()
    return x, scalar_tag(x), False


_ARITH = {'add': operator.add, 'sub': operator.sub, 'mul': operator.mul, 'div': operator.truediv,
          'floordiv': operator.floordiv, 'mod': operator.mod, 'pow': lambda a, b: tf.power(a, b)}
_CMP = {'lt': operator.lt, 'le': operator.le, 'gt': operator.gt, 'ge': operator.ge,
        'eq': operator.eq, 'ne': operator.ne}


def _bool_op(op):
    def f(a, b):
        if op == 'and':
            return sb_and([a, b])
        if op == 'or':
            return sb_or([a, b])
        if isinstance(a, SB) or isinstance(b, SB):
            return SB(z3.Xor(SB.lift(a), SB.lift(b)))
        return bool(a) != bool(b)
    return f


def _binop(op, x, y):
    try:
        xa, xt, xarr = _operand(x)
        ya, yt, yarr = _operand(y)
    except EncodingGap:
        raise
    if xt == 'str' or yt == 'str':
        if op in ('eq', 'ne') and xt == yt == 'str':
            f = _CMP[op]
            return _elementwise(f, xa, ya, xarr, yarr, 'bool', None)
        raise TypeError(f'ufunc {op!r} did not contain a loop with signature matching types (str)')
    # value-based casting of Python/numpy scalars against arrays of a higher category
    if op in _CMP:
        common = promote(xt, yt)
        if common == 'complex' and op not in ('eq', 'ne'):
            raise EncodingGap('ordering comparison of complex arrays')
        return _elementwise(_CMP[op], xa, ya, xarr, yarr, 'bool', common)
    if op in ('and', 'or', 'xor'):
        if xt == 'bool' and yt == 'bool':
            return _elementwise(_bool_op(op), xa, ya, xarr, yarr, 'bool', 'bool')
        if RANK[xt] <= 2 and RANK[yt] <= 2:
            pyop = {'and': operator.and_, 'or': operator.or_, 'xor': operator.xor}[op]
            xt, yt = _value_based(xa, xt, xarr, ya, yt, yarr)
            return _elementwise(pyop, xa, ya, xarr, yarr, promote(xt, yt) if promote(xt, yt) != 'bool' else 'int', 'int')
        raise TypeError(f"ufunc 'bitwise_{op}' not supported for the input types")
    xt, yt = _value_based(xa, xt, xarr, ya, yt, yarr)
    res = promote(xt, yt)
    if op == 'div':
        res = promote(res, 'float')
    if op == 'pow' and res in ('bool',):
        res = 'int'
    if res == 'bool':
        if op == 'add':
            return _elementwise(_bool_op('or'), xa, ya, xarr, yarr, 'bool', 'bool')
        if op == 'mul':
            return _elementwise(_bool_op('and'), xa, ya, xarr, yarr, 'bool', 'bool')
        if op == 'sub':
            raise TypeError('numpy boolean subtract, the `-` operator, is not supported')
        res = 'int'
    pre = res
    if op in ('floordiv', 'mod') and res in ('float',):
        pre = 'float'
    f = _ARITH[op]
    if op == 'pow':
        # exponent keeps its own type (integer exponents stay integers)
        return _elementwise(f, xa, ya, xarr, yarr, res, None, cast_x=res)
    return _elementwise(f, xa, ya, xarr, yarr, res, pre)


def _value_based(xa, xt, xarr, ya, yt, yarr):
    """numpy 1.x value-based casting: an integer *scalar* combined with an integer *array* of a narrow dtype does not widen the
    array's dtype when its value fits (uint8_array - 1 stays uint8 and wraps).  A symbolic scalar forks on whether it fits; one
    that does not fit widens to int64 (numpy would pick the smallest sufficient dtype: not distinguished here)."""
    def adj(sv, st, at):
        if at not in INT_W or st not in ('int', 'bool'):
            return st
        if isinstance(sv, bool) or st == 'bool':
            return at
        if isinstance(sv, int):
            lo, hi = _int_range(at)
            if lo <= sv <= hi:
                return at
            if sv >= 0 and INT_W[at][0]:
                return 'int16' if sv < (1 << 15) else 'int32' if sv < (1 << 31) else 'int'
            return _min_int_tag(sv)
        if isinstance(sv, SI):
            lo, hi = _int_range(at)
            fits = sb_and([sv >= lo, sv <= hi])
            return at if fits else 'int'
        return st
    if xarr and not yarr:
        return xt, adj(ya, yt, xt)
    if yarr and not xarr:
        return adj(xa, xt, yt), yt
    return xt, yt


def _elementwise(f, xa, ya, xarr, yarr, res_tag, pre_tag, cast_x=None):
    try:
        return _elementwise0(f, xa, ya, xarr, yarr, res_tag, pre_tag, cast_x)
    except ZeroDivisionError as e:
        if xarr or yarr:
            raise core.NonFinite('division by zero inside an array operation (numpy returns inf/nan and warns)') from e
        raise


def _elementwise0(f, xa, ya, xarr, yarr, res_tag, pre_tag, cast_x=None):
    def cx(v):
        if pre_tag is not None:
            return cast(v, pre_tag)
        if cast_x is not None:
            return cast(v, cast_x)
        return v

    def cy(v):
        if pre_tag is not None:
            return cast(v, pre_tag)
        return v

    if not xarr and not yarr:
        r = f(cx(xa), cy(ya))
        return cast(r, res_tag) if res_tag not in ('bool',) else r
    if not xarr:
        xo = _obj(())
        xo[()] = xa
        xa = xo
    if not yarr:
        yo = _obj(())
        yo[()] = ya
        ya = yo
    bx, by = _np.broadcast_arrays(xa, ya)
    out = _obj(bx.shape)
    if out.ndim == 0:
        r = f(cx(bx[()]), cy(by[()]))
        if res_tag == 'bool':
            return SB(z3.BoolVal(r)) if isinstance(r, bool) else r      # numpy bool scalars have .any()/.all()
        return cast(r, res_tag)
    it_x = bx.reshape(-1) if bx.size else bx
    it_y = by.reshape(-1) if by.size else by
    dst = out.reshape(-1)
    cache_x = cache_y = None
    xscalar = xa.size == 1
    yscalar = ya.size == 1
    if xscalar and bx.size:
        cache_x = cx(it_x[0])
    if yscalar and by.size:
        cache_y = cy(it_y[0])
    for i in range(dst.shape[0]):
        a = cache_x if xscalar else cx(it_x[i])
        b = cache_y if yscalar else cy(it_y[i])
        r = f(a, b)
        dst[i] = r if res_tag == 'bool' else cast(r, res_tag)
    return ndarray(out, res_tag)


# ---------------------------------------------------------------------------- creation

def _flatten_nested(obj):
    """Return (shape, flat list of scalars) for nested lists / tuples / arrays."""
    if isinstance(obj, ndarray):
        return obj.shape, obj.flat_list()
    if isinstance(obj, _np.ndarray):
        return obj.shape, [x.item() if isinstance(x, _np.generic) else x for x in obj.reshape(-1)]
    if isinstance(obj, (list, tuple)):
        if len(obj) == 0:
            return (0,), []
        subs = [_flatten_nested(x) for x in obj]
        sh0 = subs[0][0]
        for sh, _ in subs:
            if sh != sh0:
                raise ValueError('setting an array element with a sequence. The requested array has an '
                                 'inhomogeneous shape after 1 dimensions.')
        flat = []
        for _, f in subs:
            flat.extend(f)
        return (len(obj),) + tuple(sh0), flat
    if isinstance(obj, (map, range, zip)):
        return _flatten_nested(list(obj))
    if isinstance(obj, _np.generic):
        return (), [obj.item()]
    if isinstance(obj, str):
        return (), [obj]
    if core.is_scalar(obj):
        return (), [obj]
    raise EncodingGap(f'np.array() of {type(obj).__name__}')


def array(obj, dtype=None, copy=True, ndmin=0):
    tag = dt_tag(dtype)
    shape, flat = _flatten_nested(obj)
    if tag is None:
        if isinstance(obj, ndarray):
            tag = obj._tag
        elif isinstance(obj, _np.ndarray) and obj.dtype.kind in 'iu':
            tag = dt_tag(obj.dtype)
        elif flat:
            tag = promote(*[scalar_tag(v) for v in flat])
        else:
            tag = 'float'
    items = [cast(v, tag) for v in flat]
    a = ndarray(_fill(shape, items), tag)
    while a.ndim < ndmin:
        a = a[newaxis]
    return a


def atleast_1d(*arys):
    res = []
    for a in arys:
        a = _as_nd(a)
        res.append(a.reshape(1) if a.ndim == 0 else a)
    return res[0] if len(res) == 1 else res


def asarray(obj, dtype=None):
    if isinstance(obj, ndarray) and (dtype is None or dt_tag(dtype) == obj._tag):
        return obj
    return array(obj, dtype=dtype)


def _shape(s):
    if isinstance(s, (tuple, list)):
        return tuple(operator.index(x) for x in s)
    if isinstance(s, (R, float)) :
        raise TypeError("'float' object cannot be interpreted as an integer")
    return (operator.index(s),)


def full(shape, v, dtype=None):
    tag = dt_tag(dtype) or scalar_tag(v)
    shape = _shape(shape)
    n = int(_np.prod(shape)) if shape else 1
    cv = cast(v, tag)
    return ndarray(_fill(shape, [cv] * n), tag)


def zeros(shape, dtype=float):
    return full(shape, 0, dtype)


def ones(shape, dtype=float):
    return full(shape, 1, dtype)


def empty(shape, dtype=float):
    return full(shape, 0, dtype)


def zeros_like(a, dtype=None):
    a = _as_nd(a)
    return full(a.shape, 0, dtype or a._tag)


def ones_like(a, dtype=None):
    a = _as_nd(a)
    return full(a.shape, 1, dtype or a._tag)


def full_like(a, fill_value, dtype=None):
    """np.full_like: the fill value is broadcast to a's shape and *cast to a's dtype* (unsafe cast: floats are truncated towards
    zero for integer arrays, complex values lose their imaginary part with a ComplexWarning)."""
    a = _as_nd(a)
    tag = dt_tag(dtype) or a._tag
    if isinstance(fill_value, (ndarray, list, tuple)):
        f = _as_nd(fill_value)
        b = _np.broadcast_to(f._a, a.shape)
        items = [cast(v, tag) for v in b.reshape(-1)] if a.ndim else [cast(b[()], tag)]
        return ndarray(_fill(a.shape, items), tag)
    return full(a.shape, fill_value, tag)


def empty_like(a, dtype=None):
    return zeros_like(a, dtype)


def arange(*args, dtype=None):
    if any(isinstance(x, (R, float)) for x in args):
        fr = [R.of(x).fr() for x in args]
        start, stop, step = (Fr(0), fr[0], Fr(1)) if len(fr) == 1 else (fr[0], fr[1], Fr(1)) if len(fr) == 2 else fr
        n = max(0, math.ceil((stop - start) / step))
        return array([R(start + i * step) for i in range(n)], dtype=dtype or float)
    args = [operator.index(x) for x in args]
    return array(list(range(*args)), dtype=dtype or int)


def linspace(start, stop, num=50, endpoint=True, retstep=False):
    num = operator.index(num)
    start, stop = R.of(start) if not isinstance(start, C) else start, R.of(stop) if not isinstance(stop, C) else stop
    div = (num - 1) if endpoint else num
    if num == 0:
        return array([], dtype=float)
    if div > 0:
        step = (stop - start) / div
        items = [start + step * i for i in range(num)]
        if endpoint and num > 1:
            items[-1] = stop
    else:
        step = R(ZERO)
        items = [start]
    r = array(items, dtype=float)
    return (r, step) if retstep else r


def copy(a):
    return _as_nd(a).copy()


def result_type(*args):
    tags = []
    for x in args:
        if isinstance(x, ndarray):
            tags.append(x._tag)
        elif isinstance(x, (DT, type, str)):
            tags.append(dt_tag(x))
        else:
            tags.append(scalar_tag(x))
    return _DTS[promote(*tags)]


def dtype(x):
    return _DTS[dt_tag(x)]


def shares_memory(a, b):
    return bool(_np.shares_memory(a._a, b._a))


def isscalar(x):
    return core.is_scalar(x) or isinstance(x, str)


def iscomplexobj(x):
    return (isinstance(x, ndarray) and x._tag == 'complex') or isinstance(x, (C, complex))


def set_printoptions(*a, **k):
    pass


def shape(a):
    return _as_nd(a).shape


def size(a):
    return _as_nd(a).size


def ndim(a):
    return _as_nd(a).ndim


# ---------------------------------------------------------------------------- structure

def reshape(a, shape):
    return _as_nd(a).reshape(shape)


def ravel(a):
    return _as_nd(a).ravel()


def concatenate(arrs, axis=0):
    arrs = [_as_nd(a) for a in arrs]
    tag = promote(*[a._tag for a in arrs])
    r = _np.concatenate([a.astype(tag)._a if a._tag != tag else a._a for a in arrs], axis=axis)
    return ndarray(r, tag)


def vstack(arrs):
    arrs = [_as_nd(a) for a in arrs]
    tag = promote(*[a._tag for a in arrs])
    return ndarray(_np.vstack([a.astype(tag)._a for a in arrs]), tag)


def hstack(arrs):
    arrs = [_as_nd(a) for a in arrs]
    tag = promote(*[a._tag for a in arrs])
    return ndarray(_np.hstack([a.astype(tag)._a for a in arrs]), tag)


def tile(a, reps):
    a = _as_nd(a)
    if isinstance(reps, (tuple, list)):
        reps = tuple(operator.index(r) for r in reps)
    else:
        reps = operator.index(reps)
    return ndarray(_np.tile(a._a, reps), a._tag)


def repeat(a, repeats, axis=None):
    a = _as_nd(a)
    return ndarray(_np.repeat(a._a, operator.index(repeats), axis=axis), a._tag)


def kron(a, b):
    a, b = _as_nd(a), _as_nd(b)
    if a.ndim != 1 or b.ndim != 1:
        raise EncodingGap('kron of non 1-D arrays')
    tag = promote(a._tag, b._tag)
    if tag == 'bool':
        tag = 'bool'
    A, B = a.astype(tag).flat_list(), b.astype(tag).flat_list()
    mul = (lambda x, y: sb_and([x, y])) if tag == 'bool' else operator.mul
    return ndarray(_fill((len(A) * len(B),), [cast(mul(x, y), tag) for x in A for y in B]), tag)


def split(a, idx, axis=0):
    a = _as_nd(a)
    if isinstance(idx, ndarray):
        idx = [operator.index(v) for v in idx.flat_list()]
    elif not isinstance(idx, int):
        idx = [operator.index(v) for v in idx]
    return [ndarray(p, a._tag) for p in _np.split(a._a, idx, axis=axis)]


def resize(a, new_shape):
    a = _as_nd(a)
    if isinstance(new_shape, (tuple, list)):
        new_shape = tuple(operator.index(x) for x in new_shape)
    else:
        new_shape = operator.index(new_shape)
    return ndarray(_np.resize(a._a, new_shape), a._tag)


def roll(a, shift, axis=None):
    a = _as_nd(a)
    return ndarray(_np.roll(a._a, operator.index(shift), axis=axis), a._tag)


def flip(a, axis=None):
    a = _as_nd(a)
    return ndarray(_np.flip(a._a, axis=axis), a._tag)


def squeeze(a):
    return _as_nd(a).squeeze()


def expand_dims(a, axis):
    a = _as_nd(a)
    return ndarray(_np.expand_dims(a._a, axis), a._tag)


def unique(a):
    a = _as_nd(a)
    fl = a.flat_list()
    if any(is_symbolic(v) for v in fl):
        raise EncodingGap('np.unique of symbolic data')
    keyf = (lambda v: v.fr()) if a._tag == 'float' else (lambda v: v)
    seen = sorted({keyf(v) for v in fl})
    return array([R(v) if a._tag == 'float' else v for v in seen], dtype=a._tag)


def _cmpswap(items, i, j):
    a, b = items[i], items[j]
    c = a <= b
    if isinstance(c, SB):
        items[i], items[j] = ite(c, a, b), ite(c, b, a)
    elif not c:
        items[i], items[j] = b, a


def sort(a, axis=-1):
    a = _as_nd(a)
    if a.ndim != 1:
        raise EncodingGap('sort of non 1-D array')
    items = a.flat_list()
    if a._tag == 'complex':
        raise EncodingGap('sort of complex array')
    if not any(is_symbolic(v) for v in items):
        items = sorted(items, key=lambda v: v.fr() if isinstance(v, R) else v)
        return ndarray(_fill((len(items),), items), a._tag)
    n = len(items)
    # odd-even transposition sorting network (n rounds)
    for rnd in range(n):
        for i in range(rnd % 2, n - 1, 2):
            _cmpswap(items, i, i + 1)
    return ndarray(_fill((n,), items), a._tag)


# ---------------------------------------------------------------------------- reductions

def _keep(a, axis, res):
    """re-insert the reduced axis with length 1 (keepdims=True)."""
    a = _as_nd(a)
    if axis is None:
        return ndarray(_fill((1,) * a.ndim, [res]), scalar_tag(res))
    r = res if isinstance(res, ndarray) else ndarray(_fill((), [res]), scalar_tag(res))
    return ndarray(_np.expand_dims(r._a, axis if axis >= 0 else a.ndim + axis), r._tag)


def _reduce(a, axis, f, tag, keep_scalar=True):
    a = _as_nd(a)
    if axis is None:
        return f(a.flat_list())
    ax = axis if axis >= 0 else a.ndim + axis
    moved = _np.moveaxis(a._a, ax, -1)
    out_shape = moved.shape[:-1]
    rows = moved.reshape(-1, moved.shape[-1]) if moved.ndim > 1 else moved.reshape(1, -1)
    res = [f(list(r)) for r in rows]
    if out_shape == ():
        return res[0]
    return ndarray(_fill(out_shape, res), tag)


def _sum_list(xs, tag):
    if not xs:
        return cast(0, tag)
    acc = xs[0]
    for v in xs[1:]:
        acc = acc + v
    return cast(acc, tag)


def np_sum(a, axis=None, dtype=None, keepdims=False, **kw):
    a = _as_nd(a) if a is not None else None
    if a is None:
        return None
    tag = a._tag
    if tag == 'bool' or tag in INT_W:
        a = a.astype('int')
        tag = 'int'
    r = _reduce(a, axis, lambda xs: _sum_list(xs, tag), tag)
    r = _keep(a, axis, r) if keepdims else r
    dtg = dt_tag(dtype) if dtype is not None else None
    if dtg is not None and dtg != tag:
        # accumulator / result dtype requested by the caller (an integer sum in uint8 wraps modulo 256)
        r = r.astype(dtg) if isinstance(r, ndarray) else cast(r, dtg)
    return r


def count_nonzero(a, axis=None, keepdims=False):
    a = _as_nd(a)
    return np_sum(a.astype('bool').astype('int'), axis=axis, keepdims=keepdims)


def mean(a, axis=None, where=None, **kw):
    a = _as_nd(a)
    if where is not None:
        raise EncodingGap('np.mean(where=...)')
    tag = promote(a._tag, 'float')
    b = a.astype(tag)

    def f(xs):
        if not xs:
            raise EncodingGap('mean of empty slice (numpy returns nan)')
        return _sum_list(xs, tag) / len(xs)
    return _reduce(b, axis, f, tag)


def var(a, axis=None, **kw):
    a = _as_nd(a)
    tag = 'float'

    def f(xs):
        n = len(xs)
        m = _sum_list(xs, a._tag if a._tag in ('float', 'complex') else 'float') / n
        acc = R(ZERO)
        for v in xs:
            d = v - m
            acc = acc + (d.abs2() if isinstance(d, C) else d * d)
        return acc / n
    return _reduce(a.astype(promote(a._tag, 'float')), axis, f, tag)


def std(a, axis=None, where=None, **kw):
    if where is not None:
        raise EncodingGap('np.std(where=...)')
    v = var(a, axis=axis)
    return sqrt(v)


def _max_list(xs):
    acc = xs[0]
    for v in xs[1:]:
        acc = ite(v > acc, v, acc)
    return acc


def _min_list(xs):
    acc = xs[0]
    for v in xs[1:]:
        acc = ite(v < acc, v, acc)
    return acc


def amax(a, axis=None, keepdims=False, **kw):
    a = _as_nd(a)
    if a.size == 0:
        raise ValueError('zero-size array to reduction operation maximum which has no identity')
    r = _reduce(a, axis, _max_list, a._tag)
    return _keep(a, axis, r) if keepdims else r


def amin(a, axis=None, keepdims=False, **kw):
    a = _as_nd(a)
    if a.size == 0:
        raise ValueError('zero-size array to reduction operation minimum which has no identity')
    r = _reduce(a, axis, _min_list, a._tag)
    return _keep(a, axis, r) if keepdims else r




def _argext(xs, better):
    bi, bv = 0, xs[0]
    for i, v in enumerate(xs[1:], 1):
        c = better(v, bv)
        bi = ite(c, i, bi)
        bv = ite(c, v, bv)
    return bi


def argmax(a, axis=None):
    a = _as_nd(a)
    if a.size == 0:
        raise ValueError('attempt to get argmax of an empty sequence')
    if a._tag == 'bool':
        a = a.astype('int')
    return _reduce(a, axis, lambda xs: _argext(xs, operator.gt), 'int')


def argmin(a, axis=None):
    a = _as_nd(a)
    if a.size == 0:
        raise ValueError('attempt to get argmin of an empty sequence')
    if a._tag == 'bool':
        a = a.astype('int')
    return _reduce(a, axis, lambda xs: _argext(xs, operator.lt), 'int')


def np_all(a, axis=None):
    a = _as_nd(a)
    b = a if a._tag == 'bool' else a.astype('bool')
    return _reduce(b, axis, sb_and, 'bool')


def np_any(a, axis=None):
    a = _as_nd(a)
    b = a if a._tag == 'bool' else a.astype('bool')
    return _reduce(b, axis, sb_or, 'bool')


def array_equal(a, b):
    a, b = _as_nd(a), _as_nd(b)
    if a.shape != b.shape:
        return False
    r = (a == b)
    return np_all(r)


def cumsum(a, axis=None):
    a = _as_nd(a)
    if a.ndim != 1:
        raise EncodingGap('cumsum of non 1-D array')
    tag = 'int' if (a._tag == 'bool' or a._tag in INT_W) else a._tag
    out, acc = [], None
    for v in a.astype(tag).flat_list():
        acc = v if acc is None else acc + v
        out.append(acc)
    return ndarray(_fill((len(out),), out), tag)


def diff(a, n=1):
    a = _as_nd(a)
    if a.ndim != 1 or n != 1:
        raise EncodingGap('diff of non 1-D array')
    return a[1:] - a[:-1]


def dot(a, b):
    a, b = _as_nd(a), _as_nd(b)
    tag = promote(a._tag, b._tag)
    if a.ndim == 1 and b.ndim == 1:
        return _sum_list([x * y for x, y in zip(a.flat_list(), b.flat_list())], tag)
    if a.ndim == 2 and b.ndim == 1:
        return array([_sum_list([x * y for x, y in zip(row.flat_list(), b.flat_list())], tag) for row in a], dtype=tag)
    raise EncodingGap('dot of these shapes')


def where(cond, x=None, y=None):
    cond = _as_nd(cond)
    if x is None and y is None:
        mask = [bool(v) for v in cond.astype('bool').flat_list()]      # forks on symbolic elements
        m = _np.array(mask, dtype=bool).reshape(cond.shape)
        return tuple(array([int(i) for i in ix], dtype=int) for ix in _np.nonzero(m))
    xa, xt, _ = _operand(x)
    ya, yt, _ = _operand(y)
    tag = promote(xt, yt)
    ca = cond.astype('bool')._a
    if not isinstance(xa, _np.ndarray):
        t = _obj(()); t[()] = xa; xa = t
    if not isinstance(ya, _np.ndarray):
        t = _obj(()); t[()] = ya; ya = t
    bc, bx, by = _np.broadcast_arrays(ca, xa, ya)
    out = _obj(bc.shape)
    if out.ndim == 0:
        return ite(bc[()], cast(bx[()], tag), cast(by[()], tag))
    fc, fx, fy, dst = bc.reshape(-1), bx.reshape(-1), by.reshape(-1), out.reshape(-1)
    for i in range(dst.shape[0]):
        dst[i] = ite(fc[i], cast(fx[i], tag), cast(fy[i], tag))
    return ndarray(out, tag)


def clip(a, a_min=None, a_max=None):
    if not isinstance(a, ndarray):
        if isinstance(a, (list, tuple)):
            a = array(a)
        else:
            x = a
            tag = promote(scalar_tag(x), *(scalar_tag(v) for v in (a_min, a_max) if v is not None))
            x = cast(x, tag)
            if a_min is not None:
                x = ite(x < a_min, cast(a_min, tag), x)
            if a_max is not None:
                x = ite(x > a_max, cast(a_max, tag), x)
            return x
    tag = promote(a._tag, *(scalar_tag(v) for v in (a_min, a_max) if v is not None and not isinstance(v, ndarray)))

    def f(x):
        x = cast(x, tag)
        if a_min is not None:
            x = ite(x < a_min, cast(a_min, tag), x)
        if a_max is not None:
            x = ite(x > a_max, cast(a_max, tag), x)
        return x
    return _map(f, a, tag)


# ---------------------------------------------------------------------------- ufuncs

def _ufunc(f_real, f_complex=None, out_float=True):
    def u(x, *a, **k):
        if isinstance(x, (list, tuple)):
            x = array(x)
        if isinstance(x, ndarray):
            if x._tag == 'complex':
                if f_complex is None:
                    raise EncodingGap('ufunc on complex input')
                if x.ndim == 0:
                    return f_complex(x._a[()])
                return _map(f_complex, x, 'complex')
            tag = 'float' if out_float else x._tag
            if x.ndim == 0:
                return f_real(R.of(x._a[()]))
            return _map(lambda v: f_real(R.of(v)), x, tag)
        if isinstance(x, (C, complex)):
            if f_complex is None:
                raise EncodingGap('ufunc on complex input')
            return f_complex(C.of(x))
        return f_real(R.of(x))
    return u


exp = _ufunc(tf.exp, tf.exp)
log = _ufunc(tf.log)
log10 = _ufunc(tf.log10)
log2 = _ufunc(tf.log2)
cos = _ufunc(tf.cos)
sin = _ufunc(tf.sin)
sqrt = _ufunc(tf.sqrt, tf.sqrt)


def absolute(x):
    if isinstance(x, (list, tuple)):
        x = array(x)
    if isinstance(x, ndarray):
        if x._tag == 'complex':
            return _map(abs, x, 'float')
        if x._tag == 'bool':
            return x.copy()
        return _map(abs, x, x._tag)
    return abs(x) if not isinstance(x, complex) else abs(C.of(x))




def conj(x):
    if isinstance(x, ndarray):
        return x.conj()
    return x.conjugate() if isinstance(x, (C, R)) else x


def real(x):
    return x.real


def imag(x):
    return x.imag


def sign(x):
    def f(v):
        return ite(v > 0, 1, ite(v < 0, -1, 0))
    if isinstance(x, ndarray):
        return _map(lambda v: cast(f(v), x._tag), x, x._tag)
    return f(x)


def round_(x, decimals=0):
    if decimals != 0:
        raise EncodingGap('np.round with decimals')
    if isinstance(x, ndarray):
        if x._tag in INT_TAGS or x._tag == 'bool':
            return x.copy()
        if x._tag == 'complex':
            raise EncodingGap('round of complex')
        return _map(lambda v: core.rint(v), x, 'float')
    if isinstance(x, (int, SI)):
        return x
    return core.rint(R.of(x))


around = round_
rint = round_


def floor(x):
    if isinstance(x, ndarray):
        return _map(lambda v: R.of(core.floor(v)), x, 'float')
    return R.of(core.floor(x))


def ceil(x):
    if isinstance(x, ndarray):
        return _map(lambda v: -R.of(core.floor(-R.of(v))), x, 'float')
    return -R.of(core.floor(-R.of(x)))


def power(a, b):
    return _binop('pow', a, b)


def isnan(x):
    if isinstance(x, ndarray):
        return _map(lambda v: False, x, 'bool')
    return False


def isinf(x):
    return isnan(x)


def angle(x):
    raise EncodingGap('np.angle')


def unwrap(x):
    raise EncodingGap('np.unwrap')


def maximum(a, b):
    return where(_binop('ge', a, b), a, b)


def minimum(a, b):
    return where(_binop('le', a, b), a, b)


def vectorize(pyfunc=None, otypes=None, **kw):
    def make(fn):
        def wrapped(*args, **kwargs):
            if kwargs:
                raise EncodingGap('np.vectorize with keyword arguments')
            arrs = []
            for a in args:
                if isinstance(a, (list, tuple)):
                    a = array(a)
                arrs.append(a)
            shapes = [a.shape for a in arrs if isinstance(a, ndarray)]
            if not shapes:
                r = fn(*args)
                return r
            bshape = _np.broadcast_shapes(*shapes)
            objs = []
            for a in arrs:
                if isinstance(a, ndarray):
                    objs.append(_np.broadcast_to(a._a, bshape))
                else:
                    o = _obj(()); o[()] = a
                    objs.append(_np.broadcast_to(o, bshape))
            n = int(_np.prod(bshape)) if bshape else 1
            flat = [o.reshape(-1) if bshape else o for o in objs]
            res = []
            for i in range(n):
                res.append(fn(*[(f[i] if bshape else f[()]) for f in flat]))
            if bshape == ():
                return res[0]
            tag = promote(*[scalar_tag(v) for v in res])
            return ndarray(_fill(bshape, [cast(v, tag) for v in res]), tag)
        wrapped.__name__ = getattr(fn, '__name__', 'vectorized')
        wrapped.pyfunc = fn
        return wrapped
    if pyfunc is None:
        return make
    return make(pyfunc)


# ---------------------------------------------------------------------------- fft

def _twiddle(N, k):
    """exp(-2*pi*i*k/N) exactly where possible."""
    from . import dft
    return dft.twiddle(N, k)


def _dft_rows(a, inverse, axis):
    a = _as_nd(a)
    if a.ndim == 0:
        raise ValueError('Invalid number of FFT data points (0) specified.')
    ax = axis if axis >= 0 else a.ndim + axis
    moved = _np.moveaxis(a._a, ax, -1)
    N = moved.shape[-1]
    if N == 0:
        raise ValueError('Invalid number of FFT data points (0) specified.')
    from . import dft
    rows = moved.reshape(-1, N)
    out = _obj(rows.shape)
    c = ctx() if have_ctx() else None
    if c is not None and c.limits.get('max_fft_calls'):
        c.fft_calls = getattr(c, 'fft_calls', 0) + 1
        if c.fft_calls > c.limits['max_fft_calls']:
            c.cuts = getattr(c, 'cuts', 0) + 1
            event('cut', f"more than {c.limits['max_fft_calls']} fft/ifft calls on this path")
            raise core.PathAbort('cut: fft call budget of the bounded unrolling exhausted')
    contract = c is not None and c.mode != 'concrete' and c.limits.get('fft_mode') == 'contract'
    io_in, io_out = [], []
    event('fft', (inverse, N))
    for r in range(rows.shape[0]):
        xs = [C.of(v) for v in rows[r]]
        if contract:
            # contract-mode transform (DESIGN §1.8): fresh outputs carrying Parseval only; the contract itself is
            # an obligation proved against the exact DFT for every N in the bound (C02)
            k0 = c.fresh
            res = [C(R(z3.Real(c.fresh_name('fftre'))), R(z3.Real(c.fresh_name('fftim')))) for _ in range(N)]
            e_in = xs[0].abs2()
            for v in xs[1:]:
                e_in = e_in + v.abs2()
            e_out = res[0].abs2()
            for v in res[1:]:
                e_out = e_out + v.abs2()
            fact = (e_out * N == e_in) if inverse else (e_out == e_in * N)
            if isinstance(fact, SB):
                c.axioms.append(fact.t)
            event('fft-contract', (inverse, N))
        else:
            res = dft.dft(xs, inverse)
        for k in range(N):
            out[r, k] = res[k]
        io_in.append(xs)
        io_out.append(list(res))
    if contract:
        event('fft-io', (inverse, io_in, io_out))
    out = _np.moveaxis(out.reshape(moved.shape), -1, ax)
    return ndarray(out.copy(), 'complex')


class _FFT:
    @staticmethod
    def _resize(a, n, axis):
        """numpy's n argument: the input is cropped or zero-padded to n samples along the axis before the transform."""
        a = _as_nd(a)
        n = operator.index(n)
        if n < 1:
            raise ValueError(f'Invalid number of FFT data points ({n}) specified.')
        moved = _np.moveaxis(a._a, axis, -1)
        cur = moved.shape[-1]
        if n <= cur:
            out = moved[..., :n]
        else:
            out = _obj(moved.shape[:-1] + (n,))
            out[...] = cast(0, a._tag)
            out[..., :cur] = moved
        return ndarray(_np.moveaxis(out, -1, axis).copy(), a._tag)

    @staticmethod
    def fft(a, n=None, axis=-1):
        if n is not None:
            a = _FFT._resize(a, n, axis)
        return _dft_rows(a, False, axis)

    @staticmethod
    def ifft(a, n=None, axis=-1):
        if n is not None:
            a = _FFT._resize(a, n, axis)
        return _dft_rows(a, True, axis)

    @staticmethod
    def next_fast_len(target, real=False):
        import scipy.fft as _sf
        return int(_sf.next_fast_len(operator.index(target), real))

    @staticmethod
    def fftshift(a, axes=None):
        a = _as_nd(a)
        return ndarray(_np.fft.fftshift(a._a, axes=axes), a._tag)

    @staticmethod
    def ifftshift(a, axes=None):
        a = _as_nd(a)
        return ndarray(_np.fft.ifftshift(a._a, axes=axes), a._tag)

    @staticmethod
    def fftfreq(n, d=1.0):
        n = operator.index(n)
        d = R.of(d)
        vals = list(range(0, (n - 1) // 2 + 1)) + list(range(-(n // 2), 0))
        return array([R(Fr(v, n)) / d for v in vals], dtype=float)


fft = _FFT


# ---------------------------------------------------------------------------- random (stubs)

class _Random:
    """Nondeterministic stubs: fresh symbolic draws constrained only by the documented support;
    every call is appended to the event log with its (symbolic) arguments."""

    @staticmethod
    def _draws(kind, n, integer=False):
        c = ctx()
        out = []
        st = c.registry.setdefault('_draw_state', {'ns': '', 'k': 0})
        for _ in range(n):
            name = f"draw{st['ns']}{st['k']}_{kind}"
            st['k'] += 1
            if integer:
                v = z3.Int(name)
                c.inputs[name] = v
                val = SI(v)
            else:
                v = z3.Real(name)
                c.inputs[name] = v
                val = R(v)
            c.events.append(('draw', (name, kind)))
            out.append(val)
        return out

    @staticmethod
    def seed(s=None):
        """np.random.seed(s): the draw stream restarts; the same seed replays the same draws."""
        event('seed', s)
        if have_ctx():
            c = ctx()
            if c.mode == 'concrete':
                c.draw_seed(s)
            else:
                c.registry['_draw_state'] = {'ns': f's{s}_', 'k': 0}

    @staticmethod
    def normal(loc=0.0, scale=1.0, size=None):
        n = 1 if size is None else int(_np.prod(_shape(size)))
        event('rand_call', ('normal', loc, scale, size))
        if have_ctx() and ctx().mode == 'concrete':
            vals = ctx().draw_source('normal', n)
        else:
            vals = _Random._draws('normal', n)
        # a draw d of N(0,1) scaled: loc + scale*d  (d unconstrained real)
        items = [R.of(loc) + R.of(scale) * d for d in vals]
        if size is None:
            return items[0]
        return ndarray(_fill(_shape(size), items), 'float')

    @staticmethod
    def randn(*shape):
        n = int(_np.prod(shape)) if shape else 1
        event('rand_call', ('randn', shape))
        if have_ctx() and ctx().mode == 'concrete':
            vals = ctx().draw_source('randn', n)
        else:
            vals = _Random._draws('randn', n)
        if not shape:
            return vals[0]
        return ndarray(_fill(tuple(operator.index(s) for s in shape), vals), 'float')

    @staticmethod
    def randint(low, high=None, size=None):
        if size is not None:
            raise EncodingGap('randint with size')
        if high is None:
            low, high = 0, low
        event('rand_call', ('randint', low, high))
        if have_ctx() and ctx().mode == 'concrete':
            return int(ctx().draw_source('randint', 1)[0])
        v = _Random._draws('randint', 1, integer=True)[0]
        core.assume(sb_and([v >= low, v < high]), 'randint support')
        return v

    @staticmethod
    def choice(a, size=None):
        if size is not None:
            raise EncodingGap('choice with size')
        a = _as_nd(a)
        n = a.size
        event('rand_call', ('choice', n))
        if have_ctx() and ctx().mode == 'concrete':
            return a.flat_list()[int(ctx().draw_source('choice', 1)[0])]
        v = _Random._draws('choice', 1, integer=True)[0]
        core.assume(sb_and([v >= 0, v < n]), 'choice support')
        items = a.flat_list()
        res = items[n - 1]
        for p in range(n - 2, -1, -1):
            res = ite(v == p, items[p], res)
        return res


random = _Random

uint8 = _DTS['uint8']
int64 = _DTS['int']
int32 = _DTS['int32']
int16 = _DTS['int16']
int8 = _DTS['int8']
uint16 = _DTS['uint16']
uint32 = _DTS['uint32']
int_ = _DTS['int']
float64 = _DTS['float']
float32 = _DTS['float']
float_ = _DTS['float']
complex128 = _DTS['complex']
complex64 = _DTS['complex']
complex_ = _DTS['complex']
bool_ = _DTS['bool']


class _AbstractDT:
    """numpy's abstract scalar classes (np.integer, np.floating, ...) as far as issubdtype needs them."""
    def __init__(self, name, tags):
        self.name, self.tags = name, frozenset(tags)

    def __repr__(self):
        return f'<abstract dtype {self.name}>'


_INT_TAGS = ['int', 'int8', 'int16', 'int32', 'uint8', 'uint16', 'uint32']
_SINT_TAGS = ['int', 'int8', 'int16', 'int32']
_UINT_TAGS = ['uint8', 'uint16', 'uint32']
integer = _AbstractDT('integer', _INT_TAGS)
signedinteger = _AbstractDT('signedinteger', _SINT_TAGS)
unsignedinteger = _AbstractDT('unsignedinteger', _UINT_TAGS)
floating = _AbstractDT('floating', ['float'])
complexfloating = _AbstractDT('complexfloating', ['complex'])
inexact = _AbstractDT('inexact', ['float', 'complex'])
number = _AbstractDT('number', _INT_TAGS + ['float', 'complex'])
generic = _AbstractDT('generic', _INT_TAGS + ['float', 'complex', 'bool', 'str', 'object'])


def issubdtype(a, b):
    ta = a.tags if isinstance(a, _AbstractDT) else frozenset([dt_tag(a)])
    if isinstance(b, _AbstractDT):
        return ta <= b.tags
    # numpy: a Python type or concrete dtype as second argument stands for its abstract family only for float/complex/int
    tb = dt_tag(b)
    fam = {'float': floating.tags, 'complex': complexfloating.tags, 'int': signedinteger.tags}.get(tb, frozenset([tb])) \
        if b in (float, complex, int) else frozenset([tb])
    return ta <= fam


EXPORT_ALIASES = {'sum': np_sum, 'all': np_all, 'any': np_any, 'max': amax, 'min': amin, 'abs': absolute,
                  'round': round_}
