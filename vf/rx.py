"""Python regular expressions -> z3 regular expressions (subset used by opticomlib.utils), DESIGN §1.7.

Alphabet bound: ASCII 0x09-0x0d and 0x20-0x7e; `\\s` is therefore " \\t\\n\\r\\f\\v" (the Unicode-only
whitespace characters are outside the bound).
"""
import re as _re
import re._parser as _p
import re._constants as _c

import z3

from .core import EncodingGap, SB, SymStr

SPACE = ' \t\n\r\f\v'
ALPHABET = [chr(i) for i in list(range(9, 14)) + list(range(32, 127))]


def _union(parts):
    parts = list(parts)
    if not parts:
        return z3.Empty(z3.ReSort(z3.StringSort()))
    if len(parts) == 1:
        return parts[0]
    return z3.Union(*parts)


def _cls(items):
    neg = False
    parts = []
    for op, arg in items:
        if op == _c.NEGATE:
            neg = True
        elif op == _c.LITERAL:
            parts.append(z3.Re(chr(arg)))
        elif op == _c.RANGE:
            parts.append(z3.Range(chr(arg[0]), chr(arg[1])))
        elif op == _c.CATEGORY:
            if arg == _c.CATEGORY_SPACE:
                parts += [z3.Re(ch) for ch in SPACE]
            elif arg == _c.CATEGORY_DIGIT:
                parts.append(z3.Range('0', '9'))
            else:
                raise EncodingGap(f'regex category {arg}')
        else:
            raise EncodingGap(f'regex class item {op}')
    r = _union(parts)
    if neg:
        r = z3.Intersect(z3.Complement(r), _union([z3.Re(ch) for ch in ALPHABET]))
    return r


def _seq(items):
    parts = []
    for op, arg in items:
        if op == _c.AT:
            if arg in (_c.AT_BEGINNING, _c.AT_BEGINNING_STRING):
                if parts:
                    raise EncodingGap('^ not at the start')
                continue
            if arg == _c.AT_END:
                parts.append(z3.Option(z3.Re('\n')))
                parts.append('END')
                continue
            if arg == _c.AT_END_STRING:
                parts.append('END')
                continue
            raise EncodingGap(f'regex anchor {arg}')
        if op == _c.LITERAL:
            parts.append(z3.Re(chr(arg)))
        elif op == _c.IN:
            parts.append(_cls(arg))
        elif op == _c.ANY:
            parts.append(_union([z3.Re(ch) for ch in ALPHABET if ch != '\n']))
        elif op in (_c.MAX_REPEAT, _c.MIN_REPEAT):
            lo, hi, sub = arg
            body = _seq(list(sub))[0]
            if hi == _c.MAXREPEAT:
                r = z3.Star(body) if lo == 0 else z3.Plus(body) if lo == 1 else z3.Concat(*([body] * lo + [z3.Star(body)]))
            else:
                r = z3.Loop(body, lo, hi)
            parts.append(r)
        elif op == _c.SUBPATTERN:
            parts.append(_seq(list(arg[3]))[0])
        elif op == _c.BRANCH:
            parts.append(_union([_seq(list(b))[0] for b in arg[1]]))
        else:
            raise EncodingGap(f'regex op {op}')
    anchored_end = any(isinstance(p, str) for p in parts)
    if anchored_end:
        if not isinstance(parts[-1], str):
            raise EncodingGap('$ not at the end')
        parts = parts[:-1]
    if not parts:
        r = z3.Re('')
    elif len(parts) == 1:
        r = parts[0]
    else:
        r = z3.Concat(*parts)
    return r, anchored_end


_cache = {}


def to_z3(pattern):
    """z3 regex accepting exactly the strings s (over the bounded alphabet) with re.match(pattern, s)."""
    if pattern not in _cache:
        tree = _p.parse(pattern)
        r, end = _seq(list(tree))
        if not end:
            r = z3.Concat(r, z3.Star(_union([z3.Re(ch) for ch in ALPHABET])))
        _cache[pattern] = r
    return _cache[pattern]


class ReProxy:
    """Replacement of the `re` module inside the loaded library: symbolic strings go to z3, the rest to re."""

    def __getattr__(self, k):
        return getattr(_re, k)

    @staticmethod
    def match(pattern, string, flags=0):
        if isinstance(string, SymStr):
            if flags:
                raise EncodingGap('regex flags on a symbolic string')
            return SB(z3.InRe(string.t, to_z3(pattern)))
        return _re.match(pattern, string, flags)
