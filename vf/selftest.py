"""Mutation self-test (DESIGN §4.3): each entry is a small semantic edit of opticomlib that keeps the repository's own tests green;
the corresponding check, pointed at a scratch copy carrying the edit, must exit 1 with a reproduced VIOLATION.

    ./check selftest            # all mutants (a few minutes)
    ./check selftest --tier quick   # same; the tier only selects the tier of the checks that are run
    VERIF_SELFTEST=seeded ./check selftest      # the sub-agents' seeded changes under seeded/ (whole quick check per change)
    VERIF_SELFTEST=all ./check selftest
"""
import os
import shutil
import subprocess
import sys
import tempfile
import time

VERIF = os.path.dirname(os.path.dirname(os.path.abspath(__file__)))

# (property, file, old text, new text, --only filter, note)
MUTANTS = [
    ('C15', 'typing.py', 'return binary_sequence(self.abs() > other.abs())', 'return binary_sequence(self.abs() >= other.abs())', 'cmp-real-clean-scalar', '> becomes >= (tie only)'),
    ('C15', 'typing.py', 'out = np.concatenate((other, self.data))', 'out = np.concatenate((self.data, other))', 'algebra-list-2+3', '__radd__ order'),
    ('C01', 'typing.py', 'return self.__class__(self.signal - other.signal, -other.noise + np.zeros_like(self.signal), dtype=dtype)',
     'return self.__class__(self.signal - other.signal, other.noise + np.zeros_like(self.signal), dtype=dtype)', 'op-es1-sub-n3-a-objn', 'noise sign in __sub__'),
    ('C01', 'typing.py', 'return self[:n]', 'return self if n == self.len() else self[:n]', 'slice-es1-clean-n3-copy', 'copy() returns self'),
    ('C02', 'typing.py', '                signal = ifftshift(signal, axes=-1)', '                signal = fftshift(signal, axes=-1)', 'shift-es1-clean-n3', 'wrong shift for odd N'),
    ('C02', 'typing.py', 'noise = fft(self.noise, axis=-1)', 'noise = fft(self.noise, axis=0)', 'transform-os2-noise-n2', 'fft axis'),
    ('C04', 'devices.py', '31: [31, 28]', '31: [31, 27]', 'prbs31', 'PRBS31 tap'),
    ('C04', 'devices.py', 'seed = seed % (2**order) if seed is not None else (1 << order) - 1', 'seed = seed % (2**order - 1) if seed is not None else (1 << order) - 1', 'seedmod-prbs7', 'seed reduction modulus'),
    ('C05', 'devices.py', 'rz_pulse[: sps // 2] = 1', 'rz_pulse[: (sps + 1) // 2] = 1', 'rz-sps3', 'RZ mask for odd sps'),
    ('C05', 'devices.py', 'if np.abs(Vout) >= 48:', 'if np.abs(Vout) > 48:', 'validation-Vout', 'strict/non-strict range check'),
    ('C06', 'devices.py', '1j * eta / 2 * np.sin(g_t)', '1j * eta * np.sin(g_t)', 'mzm-pol1-clean-list', 'eta/2 -> eta'),
    ('C06', 'devices.py', 'output.noise = output.noise * h_t', 'output.noise = output.noise * np.abs(h_t)', 'mzm-pol1-noise-list', 'noise modulated by |h|'),
    ('C07', 'devices.py', 'alpha = alpha / 4.343  # [1/km]', 'alpha = alpha / 4.434  # [1/km]', 'fiber-filter-n2-pol1', 'dB->neper constant mistyped'),
    ('C07', 'devices.py', 'H = np.exp(-1j * input.w() ** 2 * D / 2)', 'H = np.exp(-1j * input.w() ** 2 * D)', 'dm-n3-pol1', 'DM phase factor'),
    ('C08', 'devices.py', 'return np.abs(A) ** 2 if A.ndim == 1 else np.abs(A[0]) ** 2 + np.abs(A[1]) ** 2', 'return np.abs(A[0]) ** 2 + np.abs(A[1]) ** 2', 'pol-equivalence', 'step size from the first two samples'),
    ('C08', 'devices.py', 'return phi_max / peak if peak > 0 else length', 'return phi_max / peak', 'finite-all0', 'zero-power guard removed'),
    ('C09', 'devices.py', 'i_noise = i_s_n + i_n_n + i_N + i_dark', 'i_noise = i_s_n + i_n_n + i_N', 'noise-ase-shot-pol1-opt', 'dark current dropped in one selection'),
    ('C09', 'devices.py', 'S_T = 4 * kB * T * gv.fs/2 * idb(Fn) / R_load', 'S_T = 4 * kB * T * gv.fs * idb(Fn) / R_load', 'noise-all-pol1-opt', 'thermal bandwidth fs instead of fs/2'),
    ('C10', 'devices.py', 'ase = np.sqrt(P_ase/4) * np.random.randn(4, input.len())', 'ase = np.sqrt(P_ase/2) * np.random.randn(4, input.len())', 'edfa-pol1-clean-n1', 'ASE power doubled'),
    ('C11', 'devices.py', 'sos_band = sg.bessel(N=n, Wn=BW, btype="low", fs=fs, output="sos", norm="mag")', 'sos_band = sg.bessel(N=n, Wn=BW, btype="low", fs=fs, output="sos", norm="phase")', 'LPF', "norm='phase'"),
    ('C12', 'ppm.py', 'decimal = np.where(input==1)[0]%M', 'decimal = (np.where(input==1)[0] - (np.where(input==1)[0]%M == 17))%M', 'roundtrip-M32', 'decoder wrong for one slot position'),
    ('C14', 'typing.py', '        if self.N is not None:\n            N = self.N', '        if N is not None:', 'gv-step-pre(sps2,N2)-call(sps)', 'stale grid when N omitted'),
    ('C18', 'utils.py', 'i = i[len(i)//2]', 'i = int(np.mean(i))', 'shortest-n5-lag1', 'mean index of tied minima'),
    ('C18', 'devices.py', ').clip(0, 2**n - 1).astype(int)', ').astype(int)', 'adc-long-3bit-n-m1', 'no saturation'),
    ('C19', 'utils.py', 'return 10**(x/10-3)', 'return 10**(x/10-2)', 'db-inverse', 'idbm offset'),
    ('C19', 'utils.py', "return f'{x*1e-12:.{k}f} T{unit}'", "return f'{x*1e-9:.{k}f} T{unit}'", 'si-1e12', 'tera scaling'),
    ('C20', 'lab.py', '([size%self.MAX_CHUNK_LEN] if size%self.MAX_CHUNK_LEN else [])', '[size%self.MAX_CHUNK_LEN]', 'get_data-requests', 'zero-length request'),
    ('C20', 'lab.py', 'channels = channels.clip(1, self.CHANNELS)[:self.CHANNELS]', 'channels = channels.clip(1, self.CHANNELS)', 'enable-chs-list5', 'more than 4 channels addressed'),
    ('C20', 'lab.py', 'signal_rx[:2*l-1]', 'signal_rx[:2*l]', 'sync-1101-sps2-d0', 'lag l admitted'),
    ('C13', 'utils.py', '    p_OFF = p_ON/er   # OFF slot average optical power, without amplification\n\n    mu_ASE', '    p_OFF = p_ON/er**0.5   # OFF\n\n    mu_ASE', 'terms-ook-noamp', 'extinction ratio applied as amplitude ratio'),
    ('C13', 'utils.py', 'S_th = 4 * kB * T * BW_el * R_L   # thermal noise variance, in [V^2]', 'S_th = 2 * kB * T * BW_el * R_L   # thermal', 'terms-ook-noamp', 'thermal noise halved in noise_variances'),
    ('C13', 'ppm.py', '(1-Q((I1-I0+s1*x)/s0))**(M-1)', '(1-Q((I1+s1*x)/s0))**(M-1)', 'estimator-ppm4-soft', 'soft estimator integrand uses mu1 instead of mu1-mu0'),
    ('C13', 'ppm.py', 'quad(lambda x: (1-Q((mu1+s1*x)/s0))**(M-1)', 'quad(lambda x: (1-Q((mu1+s0*x)/s1))**(M-1)', 'theory-ppm4-soft', 'sigmas swapped in the soft-decision integrand'),
    ('C08', 'devices.py', 'else min(step(A), length)', 'else step(A)', 'finite-weak-lossy-pol1', 'first split step not limited to the fibre (weak-field NaN returns)'),
    ('C18', 'utils.py', 'data = np.sort(data).astype(float)', 'data = np.sort(data)', 'shortest-int16', 'lag differences in the narrow integer dtype again'),
    ('C16', 'devices.py', 'D = D[min(ic, D.size - 1)]', 'D = D[ic]', 'after-ode-pol1', 'summary index past the end of the dispersion array'),
    ('C16', 'devices.py', 'dSdz = -1j * (s_ * S + k * R)', 'dSdz = -1j * (s_ * S - k * R)', 'ode-uniform', 'sign of the coupling term'),
    ('C03', 'ook.py', '        if not isinstance(Tx, binary_sequence):\n            Tx = binary_sequence( Tx )', '        if not isinstance(Tx, binary_sequence) and not isinstance(Rx, binary_sequence):\n            Tx = binary_sequence( Tx )', 'counter-ook-list-bs', 'Tx conversion skipped'),
]


def run_one(m, tier):
    prop, fname, old, new, only, note = m
    d = tempfile.mkdtemp(prefix='vf_mut_')
    try:
        shutil.copytree('/repo/opticomlib', os.path.join(d, 'opticomlib'))
        p = os.path.join(d, 'opticomlib', fname)
        s = open(p, encoding='utf-8').read()
        if s.count(old) < 1:
            return 'stale', f'pattern not found in {fname}'
        open(p, 'w', encoding='utf-8').write(s.replace(old, new, 1))
        env = dict(os.environ, VERIF_REPO=d, VERIF_NO_EVIDENCE='1', VERIF_REPLAY_DIR=os.path.join(d, 'replays'))
        t0 = time.time()
        r = subprocess.run([os.path.join(VERIF, 'check'), prop, '--tier', tier, '--only', only], env=env, capture_output=True, text=True, timeout=3000)
        out = r.stdout
        hit = r.returncode == 1 and 'VIOLATION property=' + prop in out
        return ('caught' if hit else f'missed(exit {r.returncode})'), f'{time.time() - t0:.0f}s'
    finally:
        shutil.rmtree(d, ignore_errors=True)


def seeded_corpus():
    """the independent sub-agents' changes kept under seeded/ (DESIGN §10.5): (name, property, patch, expected to be caught?)"""
    import glob
    import json
    out = []
    for meta in sorted(glob.glob(os.path.join(VERIF, 'seeded', '*', 'meta.json'))):
        d = json.load(open(meta))
        name = os.path.basename(os.path.dirname(meta))
        out.append((name, d['property'], os.path.join(os.path.dirname(meta), 'patch.diff'), bool(d['check_run']['detected'])))
    return out


def run_seeded(entry, tier):
    name, prop, patch, expected = entry
    d = tempfile.mkdtemp(prefix='vf_seed_')
    try:
        shutil.copytree('/repo/opticomlib', os.path.join(d, 'opticomlib'))
        r = subprocess.run(['git', 'apply', patch], cwd=d, capture_output=True, text=True)
        if r.returncode != 0:
            return 'stale', 'patch does not apply: ' + r.stderr.strip()[:120]
        env = dict(os.environ, VERIF_REPO=d, VERIF_NO_EVIDENCE='1', VERIF_REPLAY_DIR=os.path.join(d, 'replays'))
        t0 = time.time()
        r = subprocess.run([os.path.join(VERIF, 'check'), prop, '--tier', tier], env=env, capture_output=True, text=True, timeout=6000)
        hit = r.returncode == 1 and 'VIOLATION property=' + prop in r.stdout
        if expected:
            return ('caught' if hit else f'missed(exit {r.returncode})'), f'{time.time() - t0:.0f}s'
        return ('caught(unexpected)' if hit else f'not-detected-as-recorded(exit {r.returncode})'), f'{time.time() - t0:.0f}s'
    finally:
        shutil.rmtree(d, ignore_errors=True)


def main(tier='quick'):
    from concurrent.futures import ThreadPoolExecutor
    res = []
    seeded = os.environ.get('VERIF_SELFTEST', 'mutants')          # mutants | seeded | all
    with ThreadPoolExecutor(max_workers=4) as ex:
        futs = []
        if seeded in ('mutants', 'all'):
            futs += [((m[0], m[1], m[5]), True, ex.submit(run_one, m, tier)) for m in MUTANTS]
        if seeded in ('seeded', 'all'):
            futs += [((e[1], 'seeded', e[0]), e[3], ex.submit(run_seeded, e, tier)) for e in seeded_corpus()]
        for lab, expected, f in futs:
            st, info = f.result()
            res.append((lab, expected, st, info))
            print(f'{st:14s} {lab[0]} {lab[1]:11s} {lab[2]} [{info}]', flush=True)
    want = [r for r in res if r[1]]
    caught = sum(1 for r in want if r[2] == 'caught')
    print(f'selftest: {caught}/{len(want)} changes caught' + (f'; {len(res) - len(want)} recorded as not detectable' if len(res) != len(want) else ''))
    return 0 if caught == len(want) else 1
