"""Exact DFT (DESIGN.md §1.4): twiddle factors in Q(sqrt2, sqrt3, sqrt5, sin36, sin72)."""
from __future__ import annotations
import math
from fractions import Fraction as Fr

import z3

from .core import R, C, ctx, have_ctx, event, EncodingGap

EXACT_N = (1, 2, 3, 4, 5, 6, 8, 10, 12, 24)


def _const(name, square=None, lo=None, hi=None):
    c = ctx()
    key = 'K_' + name
    if key not in c.registry:
        v = z3.Real(name)
        c.axioms.append(v > z3.RealVal(lo))
        c.axioms.append(v < z3.RealVal(hi))
        c.registry[key] = R(v)
        if square is not None:
            sq = square()
            ax = (R(v) * R(v) == sq)
            c.axioms.append(ax.t)
    return c.registry[key]


def r2():
    return _const('r2', lambda: R(Fr(2)), '1.41421356', '1.41421357')


def r3():
    return _const('r3', lambda: R(Fr(3)), '1.73205080', '1.73205081')


def r5():
    return _const('r5', lambda: R(Fr(5)), '2.23606797', '2.23606798')


def s36():
    return _const('s36', lambda: (R(Fr(10)) - r5() * 2) / 16, '0.58778525', '0.58778526')


def s72():
    v = _const('s72', lambda: (R(Fr(10)) + r5() * 2) / 16, '0.95105651', '0.95105652')
    c = ctx()
    if 'K_s72_link' not in c.registry:
        c.registry['K_s72_link'] = True
        c.axioms.append((v == s36() * (r5() + 1) / 2).t)
    return v


def _cs_deg15(m):
    """(cos, sin) of m*15 degrees, m in 0..23, exact in Q(r2, r3)."""
    m %= 24
    quad, r = divmod(m, 6)
    h = R(Fr(1, 2))
    if r == 0:
        c, s = R(Fr(1)), R(Fr(0))
    elif r == 1:
        c, s = (r2() * r3() + r2()) / 4, (r2() * r3() - r2()) / 4
    elif r == 2:
        c, s = r3() / 2, h
    elif r == 3:
        c, s = r2() / 2, r2() / 2
    elif r == 4:
        c, s = h, r3() / 2
    else:
        c, s = (r2() * r3() - r2()) / 4, (r2() * r3() + r2()) / 4
    for _ in range(quad):
        c, s = -s, c
    return c, s


def _cs_deg36(m):
    """(cos, sin) of m*36 degrees, m in 0..9."""
    m %= 10
    if m == 0:
        return R(Fr(1)), R(Fr(0))
    if m == 5:
        return R(Fr(-1)), R(Fr(0))
    c36, c72 = (r5() + 1) / 4, (r5() - 1) / 4
    tab = {1: (c36, s36()), 2: (c72, s72()), 3: (-c72, s72()), 4: (-c36, s36())}
    if m < 5:
        return tab[m]
    c, s = tab[10 - m]
    return c, -s


def cs_exact(N, k):
    """(cos, sin)(2*pi*k/N)."""
    k %= N
    if have_ctx() and ctx().mode == 'concrete' or N not in EXACT_N:
        if N not in EXACT_N:
            event('inexact-dft', N)
        if N in (1, 2, 4):
            pass
        else:
            a = 2 * math.pi * k / N
            return R(Fr(math.cos(a))), R(Fr(math.sin(a)))
    if 24 % N == 0:
        return _cs_deg15(k * (24 // N))
    if 10 % N == 0:
        return _cs_deg36(k * (10 // N))
    raise EncodingGap(f'DFT length {N}')


def twiddle(N, k, inverse=False):
    c, s = cs_exact(N, k)
    return C(c, s if inverse else -s)


def dft(xs, inverse=False):
    N = len(xs)
    tw = [twiddle(N, k, inverse) for k in range(N)]
    out = []
    for k in range(N):
        acc = C(0, 0)
        for n, x in enumerate(xs):
            acc = acc + x * tw[(k * n) % N]
        if inverse:
            acc = C(acc.re / N, acc.im / N)
        out.append(acc)
    return out
