"""Load the real opticomlib source over the SymNP model (DESIGN.md §1.1).

The files under $VERIF_REPO/opticomlib are parsed on every run, rewritten lightly and executed
with numpy/scipy/... redirected to the model.  Rewrites:
  * float/complex literals -> exact R / C values carrying the literal's decimal text
  * a / b, a ** b          -> helpers that keep int/int results exact
  * int(x), float(x), complex(x) calls -> truncation / conversion over the scalar tower
`isinstance`, `print` and `__import__` are replaced through the module's builtins.
"""
from __future__ import annotations
import ast
import builtins
import hashlib
import os
import sys
import types
from fractions import Fraction as Fr

from . import core, snp, tf, sig, rx
from .core import R, C, event

REPO = os.environ.get('VERIF_REPO', '/repo')
MODULES = ['utils', 'typing', 'devices', 'ppm', 'ook', 'lab']


class _Rewriter(ast.NodeTransformer):
    def visit_Constant(self, node):
        v = node.value
        if isinstance(v, float):
            return ast.copy_location(
                ast.Call(func=ast.Name(id='_vf_R', ctx=ast.Load()), args=[ast.Constant(repr(v))], keywords=[]), node)
        if isinstance(v, complex):
            return ast.copy_location(
                ast.Call(func=ast.Name(id='_vf_C', ctx=ast.Load()),
                         args=[ast.Constant(repr(v.real)), ast.Constant(repr(v.imag))], keywords=[]), node)
        return node

    def visit_JoinedStr(self, node):
        # keep format specs untouched, rewrite only the embedded expressions
        for v in node.values:
            if isinstance(v, ast.FormattedValue):
                v.value = self.visit(v.value)
        return node

    def visit_BinOp(self, node):
        self.generic_visit(node)
        if isinstance(node.op, ast.Div):
            fn = '_vf_div'
        elif isinstance(node.op, ast.Pow):
            fn = '_vf_pow'
        else:
            return node
        return ast.copy_location(
            ast.Call(func=ast.Name(id=fn, ctx=ast.Load()), args=[node.left, node.right], keywords=[]), node)

    def visit_AugAssign(self, node):
        self.generic_visit(node)
        if isinstance(node.op, (ast.Div, ast.Pow)) and isinstance(node.target, ast.Name):
            fn = '_vf_div' if isinstance(node.op, ast.Div) else '_vf_pow'
            return ast.copy_location(
                ast.Assign(targets=[ast.Name(id=node.target.id, ctx=ast.Store())],
                           value=ast.Call(func=ast.Name(id=fn, ctx=ast.Load()),
                                          args=[ast.Name(id=node.target.id, ctx=ast.Load()), node.value],
                                          keywords=[])), node)
        return node

    def visit_Call(self, node):
        self.generic_visit(node)
        if isinstance(node.func, ast.Name) and node.func.id in ('int', 'float', 'complex') and not node.keywords:
            node.func = ast.Name(id='_vf_' + node.func.id, ctx=ast.Load())
        return node


class Dummy:
    """Inert stand-in for plotting / GUI objects."""

    def __init__(self, *a, **k):
        pass

    def __getattr__(self, k):
        if k.startswith('__') and k.endswith('__'):
            raise AttributeError(k)
        return Dummy()

    def __call__(self, *a, **k):
        return Dummy()

    def __setitem__(self, k, v):
        pass

    def __getitem__(self, k):
        return Dummy()

    def __iter__(self):
        return iter(())

    def __enter__(self):
        return self

    def __exit__(self, *a):
        return False


def _mod(name, **attrs):
    m = types.ModuleType(name)
    m.__dict__.update(attrs)
    return m


class Warnings:
    """Recording replacement of the `warnings` module."""
    import warnings as _w
    WarningMessage = _w.WarningMessage
    catch_warnings = _w.catch_warnings
    simplefilter = staticmethod(_w.simplefilter)

    @staticmethod
    def warn(msg, category=UserWarning, stacklevel=1):
        event('warn', (str(msg) if not isinstance(msg, str) else msg, getattr(category, '__name__', str(category))))

    @staticmethod
    def filterwarnings(*a, **k):
        pass


def _print(*a, **k):
    event('print', ' '.join(str(x) for x in a))


def build_env(mode='symbolic'):
    """Model modules for one library instance."""
    npmod = types.ModuleType('numpy')
    for k, v in snp.__dict__.items():
        if not k.startswith('_') and k not in ('annotations', 'builtins', 'math', 'operator', 'Fr', 'z3', 'core', 'tf'):
            npmod.__dict__[k] = v
    npmod.__dict__.update(snp.EXPORT_ALIASES)
    npmod.pi = PiProxy()
    fftmod = _mod('numpy.fft', fft=snp._FFT.fft, ifft=snp._FFT.ifft, fftshift=snp._FFT.fftshift,
                  ifftshift=snp._FFT.ifftshift, fftfreq=snp._FFT.fftfreq)
    npmod.fft = fftmod
    spfft = _mod('scipy.fft', fft=snp._FFT.fft, ifft=snp._FFT.ifft, fftshift=snp._FFT.fftshift, ifftshift=snp._FFT.ifftshift,
                 fftfreq=snp._FFT.fftfreq, next_fast_len=snp._FFT.next_fast_len)
    npmod.random = snp._Random
    consts = _mod('scipy.constants', pi=npmod.pi, c=R(Fr(299792458)), h=R(Fr('6.62607015e-34')),
                  e=R(Fr('1.602176634e-19')), k=R(Fr('1.380649e-23')))
    scipy = _mod('scipy', constants=consts, signal=sig.signal_module(), special=sig.special_module(),
                 integrate=sig.integrate_module(), stats=sig.stats_module(), fft=spfft)
    mods = {
        'numpy': npmod, 'numpy.fft': fftmod, 'numpy.random': snp._Random,
        'scipy': scipy, 'scipy.constants': consts, 'scipy.signal': scipy.signal, 'scipy.special': scipy.special,
        'scipy.integrate': scipy.integrate, 'scipy.stats': scipy.stats, 'scipy.fft': spfft,
        'sklearn': _mod('sklearn', cluster=sig.sklearn_cluster_module()),
        'pympler': _mod('pympler', asizeof=_mod('pympler.asizeof', asizeof=lambda o: 0)),
        'tqdm': _mod('tqdm', auto=_mod('tqdm.auto', tqdm=Dummy)),
        'matplotlib': _mod('matplotlib', pyplot=Dummy(), widgets=Dummy(), animation=Dummy()),
        'pyvisa': _mod('pyvisa', ResourceManager=Dummy),
        'warnings': Warnings,
        're': rx.ReProxy(),
    }
    mods['sklearn.cluster'] = mods['sklearn'].cluster
    mods['pympler.asizeof'] = mods['pympler'].asizeof
    mods['tqdm.auto'] = mods['tqdm'].auto
    mods['matplotlib.pyplot'] = mods['matplotlib'].pyplot
    mods['matplotlib.widgets'] = mods['matplotlib'].widgets
    mods['matplotlib.animation'] = mods['matplotlib'].animation
    return mods


class PiProxy:
    """`pi`: resolves to the symbolic constant PI (or the double in concrete mode) when used."""
    __array_priority__ = 3000

    def _v(self):
        return tf.PI()

    def __vf_scalar__(self):
        return self._v()

    def __float__(self):
        import math
        return math.pi

    def __repr__(self):
        return 'pi'


def _fwd(name):
    def f(self, *a):
        return getattr(self._v(), name)(*a)
    return f


for _n in ['__add__', '__radd__', '__sub__', '__rsub__', '__mul__', '__rmul__', '__truediv__', '__rtruediv__',
           '__pow__', '__rpow__', '__neg__', '__lt__', '__le__', '__gt__', '__ge__', '__eq__', '__ne__',
           '__abs__', '__format__']:
    setattr(PiProxy, _n, _fwd(_n))
PiProxy.__hash__ = lambda self: 314159


class Library:
    """One loaded instance of the opticomlib source tree over the model."""

    def __init__(self, repo=None):
        self.repo = repo or REPO
        self.mods = build_env()
        self.modules = {}
        self.sources = {}
        pkg = types.ModuleType('opticomlib')
        pkg.__path__ = []
        self.pkg = pkg
        for name in MODULES:
            self._load(name)

    def _import(self, name, globals=None, locals=None, fromlist=(), level=0):
        if level > 0:
            # relative import inside the package
            if name:
                m = self.modules.get(name)
                if m is None:
                    raise ImportError(f'relative import of unknown module .{name}')
                return m
            return self.pkg
        if name in self.mods or name.split('.')[0] in self.mods:
            if fromlist:
                return self.mods[name]
            return self.mods[name.split('.')[0]]
        if name.split('.')[0] == 'opticomlib':
            sub = name.split('.')[1:]
            if fromlist and sub:
                return self.modules[sub[0]]
            return self.pkg
        return builtins.__import__(name, globals, locals, fromlist, level)

    def _load(self, name):
        path = os.path.join(self.repo, 'opticomlib', name + '.py')
        src = open(path, encoding='utf-8').read()
        self.sources[name] = src
        tree = ast.parse(src, filename=path)
        tree = _Rewriter().visit(tree)
        ast.fix_missing_locations(tree)
        code = compile(tree, path, 'exec')
        m = types.ModuleType('opticomlib.' + name)
        m.__file__ = path
        m.__package__ = 'opticomlib'
        b = dict(builtins.__dict__)
        b['__import__'] = self._import
        b['isinstance'] = core.vf_isinstance
        b['print'] = _print
        b['min'] = core.vf_min
        b['max'] = core.vf_max
        m.__dict__['__builtins__'] = b
        m.__dict__['_vf_R'] = lambda s: R(Fr(s))
        m.__dict__['_vf_C'] = lambda re, im: C(R(Fr(re)), R(Fr(im)))
        m.__dict__['_vf_div'] = core.vf_div
        m.__dict__['_vf_pow'] = core.vf_pow
        m.__dict__['_vf_int'] = core.vf_int
        m.__dict__['_vf_float'] = core.vf_float
        m.__dict__['_vf_complex'] = core.vf_complex
        self.modules[name] = m
        setattr(self.pkg, name, m)
        exec(code, m.__dict__)

    def __getattr__(self, k):
        mods = object.__getattribute__(self, 'modules')
        if k in mods:
            return mods[k]
        raise AttributeError(k)

    def reset(self):
        """Fresh global state (gv singleton, timer stack) at the start of every path."""
        gv = self.modules['typing'].gv
        gv.__dict__.clear()
        gv.__init__()
        self.modules['utils']._timer_instance.tic_stack.clear()

    def np(self):
        return self.mods['numpy']


def function_info(repo, module, qualname):
    """(file, first line, last line, sha256 of the source segment) of a function/class in the real tree."""
    path = os.path.join(repo, 'opticomlib', module + '.py')
    src = open(path, encoding='utf-8').read()
    tree = ast.parse(src)
    parts = qualname.split('.')
    body = tree.body
    node = None
    for p in parts:
        node = next((n for n in body if isinstance(n, (ast.FunctionDef, ast.ClassDef)) and n.name == p), None)
        if node is None:
            raise KeyError(f'{module}.{qualname} not found in {path}')
        body = node.body
    seg = ast.get_source_segment(src, node)
    return {'function': f'{module}.{qualname}', 'file': f'opticomlib/{module}.py', 'lines': [node.lineno, node.end_lineno],
            'sha256': hashlib.sha256(seg.encode()).hexdigest()[:16]}
