"""Transcendental / algebraic functions as fresh variables + axioms (DESIGN.md §1.5).

Every application f(arg) is keyed by the sum-of-monomials normal form of `arg`:
identical arguments share one variable.  Axioms are true statements about the real
functions and are instantiated only over the arguments that occur on the path.
Concrete arguments are evaluated exactly where the value is rational and with
double-precision libm otherwise (recorded as an idealisation).
"""
from __future__ import annotations
import math
from fractions import Fraction as Fr

import z3

from . import core
from .core import (R, C, SI, SB, ctx, have_ctx, EncodingGap, tz, ite, sb_and, sb_or, ZERO, ONE,
                   _isz, is_symbolic, ndarray_types)

PAIR_LIMIT = 14        # pairwise (monotonicity / addition) axioms only among this many entries


def _canon(term):
    """sum-of-monomials normal form; z3's simplifier needs a second pass to merge numeric factors."""
    t = z3.simplify(term, som=True, flat=True)
    for _ in range(3):
        t2 = z3.simplify(t, som=True, flat=True)
        if t2.eq(t):
            break
        t = t2
    return t


def _small(term, limit=1500):
    """True if the term DAG has at most `limit` nodes (som normalisation of big products explodes)."""
    seen, stack = set(), [term]
    while stack:
        t = stack.pop()
        i = t.get_id()
        if i in seen:
            continue
        seen.add(i)
        if len(seen) > limit:
            return False
        stack.extend(t.children())
    return True


def _canon_key(term):
    return _canon(term) if _small(term) else term


def key_of(x: R):
    """Normal-form key of a real argument."""
    if x.concrete:
        return ('c', x.n)
    n = _canon_key(tz(x.n))
    if _isz(x.d):
        d = _canon_key(x.d)
        return ('q', n.get_id(), d.get_id(), n, d)
    return ('p', n.get_id(), n)


class Entry:
    __slots__ = ('fn', 'arg', 'out', 'key')

    def __init__(self, fn, arg, out, key):
        self.fn, self.arg, self.out, self.key = fn, arg, out, key


def _reg():
    return ctx().registry


def _entries(fn):
    return list(_reg().setdefault('_byfn', {}).get(fn, []))       # a copy: callers may register new applications while iterating


def _add(k, entry):
    r = _reg()
    r[k] = entry
    r.setdefault('_byfn', {}).setdefault(entry.fn, []).append(entry)


def _lookup(fn, x):
    full = key_of(x)
    k = (fn,) + full[:3]
    # keep the canonical terms alive: z3 AST ids are only stable while the term is referenced
    ctx().registry.setdefault('_keepalive', []).append(full)
    return k, _reg().get(k)


def _fresh(base):
    c = ctx()
    return z3.Real(c.fresh_name(base))


def _ax(sb):
    if isinstance(sb, SB):
        ctx().axioms.append(sb.t)
    elif sb is False:
        raise EncodingGap('axiom evaluated to False')


def _num(t):
    if z3.is_rational_value(t):
        return Fr(t.numerator_as_long(), t.denominator_as_long())
    if z3.is_int_value(t):
        return Fr(t.as_long())
    return None


def _const_diff(a: R, b: R):
    """a - b if it is (syntactically, after normalisation) a concrete number, else None."""
    d = a - b
    if d.concrete:
        return d.n
    s = _canon(tz(d.n))
    v = _num(s)
    if _isz(d.d):
        return ZERO if (v is not None and v == 0) else None
    return v


def _split_coeff(t):
    """(coefficient, rest-id, rest) of a normalised monomial-like term c*m."""
    v = _num(t)
    if v is not None:
        return v, None
    if z3.is_mul(t):
        ch = t.children()
        c0 = _num(ch[0])
        if c0 is not None:
            rest = ch[1] if len(ch) == 2 else z3.simplify(z3.Product(*ch[1:]), som=True, flat=True)
            return c0, rest
    return ONE, t


def _ratio_const(a: R, b: R):
    """a / b if it is a concrete number (b a non-zero polynomial), else None.  Cheap test only."""
    if a.concrete or b.concrete:
        return None
    if _isz(a.d) or _isz(b.d):
        return None
    return None


# ------------------------------------------------------------------ sqrt

def _exact_sqrt(fr):
    if fr < 0:
        return None
    n, d = fr.numerator, fr.denominator
    rn, rd = math.isqrt(n), math.isqrt(d)
    if rn * rn == n and rd * rd == d:
        return Fr(rn, rd)
    return None


def sqrt(x):
    if isinstance(x, C):
        if x.im.concrete and x.im.n == 0:
            x = x.re
        else:
            raise EncodingGap('sqrt of a complex value')
    x = R.of(x)
    if x.concrete:
        if x.n < 0:
            raise EncodingGap('sqrt of a negative concrete value (numpy would give nan)')
        e = _exact_sqrt(x.n)
        if e is not None:
            return R(e)
        return R(Fr(math.sqrt(x.n)))      # irrational constant: the double (idealisation, DESIGN §1.5)
    k, e = _lookup('sqrt', x)
    if e is not None:
        return e.out
    r = _fresh('sqrt')
    out = R(r)
    c = ctx()
    c.defs.append((x >= 0).t if isinstance(x >= 0, SB) else z3.BoolVal(bool(x >= 0)))
    c.events.append(('sqrt', x))
    c.axioms.append(r >= 0)
    nonneg = x >= 0
    _ax(sb_or([~nonneg if isinstance(nonneg, SB) else (not nonneg), out * out == x]))
    _add(k, Entry('sqrt', x, out, k))
    return out


# ------------------------------------------------------------------ exp / log family

def _libm(f, x):
    try:
        return R(Fr(f(float(x))))
    except (OverflowError, ValueError) as e:
        raise EncodingGap(f'{f.__name__}({float(x)}) is not finite') from e


def exp(x):
    if isinstance(x, C):
        if x.im.concrete and x.im.n == 0:
            return C(exp(x.re), 0)
        cs = cos(x.im), sin(x.im)
        if x.re.concrete and x.re.n == 0:
            return C(cs[0], cs[1])
        m = exp(x.re)
        return C(m * cs[0], m * cs[1])
    x = R.of(x)
    if x.concrete:
        if x.n == 0:
            return R(ONE)
        return _libm(math.exp, x.n)
    k, e = _lookup('exp', x)
    if e is not None:
        return e.out
    # exp(log(y)) = y
    for le in _entries('log'):
        d = _const_diff(x, le.out)
        if d is not None and d == 0:
            return le.arg
    v = _fresh('exp')
    out = R(v)
    ctx().axioms.append(v > 0)
    # double range: exp underflows to 0 below about -745 and overflows to inf above about 709 (then 0*inf = nan downstream).
    # Recorded as a definedness side condition: assumed by ordinary obligations, decided where check_defined is posted.
    core.assume_def(sb_and([x >= -700, x <= 700]).t, 'exp argument within the range of a double')
    _ax(out >= x + 1)
    ents = _entries('exp')
    if len(ents) <= PAIR_LIMIT:
        for o in ents:
            _ax(sb_and([(x < o.arg) == (out < o.out), (x == o.arg) == (out == o.out)]))
            # exp(a)exp(b) = exp(a+b) for triples present
        for a in ents:
            for b in ents:
                if a is b:
                    continue
                d = _const_diff(x, a.arg + b.arg)
                if d is not None and d == 0:
                    _ax(out == a.out * b.out)
                d = _const_diff(a.arg, x + b.arg)
                if d is not None and d == 0:
                    _ax(a.out == out * b.out)
        for a in ents:
            d = _const_diff(x, a.arg + a.arg)
            if d is not None and d == 0:
                _ax(out == a.out * a.out)
            d = _const_diff(a.arg, x + x)
            if d is not None and d == 0:
                _ax(a.out == out * out)
            d = _const_diff(x, -a.arg)
            if d is not None and d == 0:
                _ax(out * a.out == 1)
    _ax(sb_and([(x < 0) == (out < 1), (x == 0) == (out == 1)]))
    _add(k, Entry('exp', x, out, k))
    return out


def _exact_pow10(fr):
    if fr.denominator == 1 and abs(fr.numerator) <= 400:
        return Fr(10) ** fr.numerator
    return None


def pow10(x):
    x = R.of(x)
    if x.concrete:
        e = _exact_pow10(x.n)
        if e is not None:
            return R(e)
        return _libm(lambda t: 10.0 ** t, x.n)
    k, e = _lookup('pow10', x)
    if e is not None:
        return e.out
    # 10**(log10(y) + k) = y * 10**k
    for le in _entries('log10'):
        d = _const_diff(x, le.out)
        if d is not None:
            p = _exact_pow10(d)
            if p is not None:
                return le.arg * p
    v = _fresh('pow10')
    out = R(v)
    ctx().axioms.append(v > 0)
    ents = _entries('pow10')
    if len(ents) <= PAIR_LIMIT:
        for o in ents:
            d = _const_diff(x, o.arg)
            if d is not None and _exact_pow10(d) is not None:
                _ax(out == o.out * _exact_pow10(d))
            else:
                _ax(sb_and([(x < o.arg) == (out < o.out), (x == o.arg) == (out == o.out)]))
        for a in ents:
            for b in ents:
                if a is b:
                    continue
                d = _const_diff(x, a.arg + b.arg)
                if d is not None and _exact_pow10(d) is not None:
                    _ax(out == a.out * b.out * _exact_pow10(d))
            d = _const_diff(x, a.arg + a.arg)
            if d is not None and _exact_pow10(d) is not None:
                _ax(out == a.out * a.out * _exact_pow10(d))
            d = _const_diff(a.arg, x + x)
            if d is not None and _exact_pow10(d) is not None:
                _ax(a.out == out * out * _exact_pow10(d))
            d = _const_diff(x, -a.arg)
            if d is not None and _exact_pow10(d) is not None:
                _ax(out * a.out == _exact_pow10(d))
    _ax(sb_and([(x < 0) == (out < 1), (x == 0) == (out == 1)]))
    # coarse numeric enclosure helps the solver with dB ranges: 10^x >= 1 + x*ln10 > 1 + 2.3x
    _ax(out >= x * Fr('2.302585092') + 1)
    # decade brackets (monotonicity against the exact points 10^k)
    for kk in range(-6, 7):
        pk = Fr(10) ** kk
        _ax(sb_and([(x < kk) == (out < pk), (x == kk) == (out == pk)]))
    _add(k, Entry('pow10', x, out, k))
    return out


def _exact_log10(fr):
    if fr <= 0:
        return None
    n, d = fr.numerator, fr.denominator
    for num, sign in ((n, 1), (d, -1)):
        other = d if sign == 1 else n
        if other != 1:
            continue
        k, v = 0, num
        while v % 10 == 0:
            v //= 10
            k += 1
        if v == 1:
            return Fr(sign * k)
    return None


def log10(x):
    x = R.of(x)
    if x.concrete:
        if x.n <= 0:
            raise EncodingGap('log10 of a non-positive concrete value (numpy would give -inf/nan)')
        e = _exact_log10(x.n)
        if e is not None:
            return R(e)
        return _libm(math.log10, x.n)
    k, e = _lookup('log10', x)
    if e is not None:
        return e.out
    c = ctx()
    # log10(c * 10**a) = a + log10(c)
    for pe in _entries('pow10'):
        q = x / pe.out
        qq = _const_ratio_value(q)
        if qq is not None and qq > 0:
            lg = _exact_log10(qq)
            if lg is not None:
                return pe.arg + lg
    v = _fresh('log10')
    out = R(v)
    pos = x > 0
    c.defs.append(pos.t)
    c.events.append(('log', x))
    ents = _entries('log10')
    if len(ents) <= PAIR_LIMIT:
        for o in ents:
            _ax(sb_and([(x < o.arg) == (out < o.out), (x == o.arg) == (out == o.out)]))
            q = _const_ratio_value(x / o.arg)
            if q is not None and q > 0 and _exact_log10(q) is not None:
                _ax(out == o.out + _exact_log10(q))
        for a in ents:
            for b in ents:
                if a is b:
                    continue
                q = _const_ratio_value(x / (a.arg * b.arg))
                if q is not None and q > 0 and _exact_log10(q) is not None:
                    _ax(out == a.out + b.out + _exact_log10(q))
                q = _const_ratio_value(a.arg / (x * b.arg))
                if q is not None and q > 0 and _exact_log10(q) is not None:
                    _ax(a.out == out + b.out + _exact_log10(q))
    _ax(sb_and([(x < 1) == (out < 0), (x == 1) == (out == 0)]))
    _add(k, Entry('log10', x, out, k))
    return out


def _const_ratio_value(q: R):
    """Concrete value of q if its normal form is a number."""
    if q.concrete:
        return q.n
    n = _canon(tz(q.n))
    if not _isz(q.d):
        return _num(n)
    d = _canon(q.d)
    if n.eq(d):
        return ONE
    cn, rn = _split_coeff(n)
    cd, rd = _split_coeff(d)
    if rn is not None and rd is not None and rn.eq(rd) and cd != 0:
        return cn / cd
    if rn is None and rd is None and cd != 0:
        return cn / cd
    return None


def log(x):
    x = R.of(x)
    if x.concrete:
        if x.n <= 0:
            raise EncodingGap('log of a non-positive concrete value')
        if x.n == 1:
            return R(ZERO)
        return _libm(math.log, x.n)
    k, e = _lookup('log', x)
    if e is not None:
        return e.out
    for ee in _entries('exp'):
        d = _const_diff(x, ee.out)
        if d is not None and d == 0:
            return ee.arg
    c = ctx()
    v = _fresh('log')
    out = R(v)
    c.defs.append((x > 0).t)
    c.events.append(('log', x))
    ents = _entries('log')
    if len(ents) <= PAIR_LIMIT:
        for o in ents:
            _ax(sb_and([(x < o.arg) == (out < o.out), (x == o.arg) == (out == o.out)]))
    _ax(sb_and([(x < 1) == (out < 0), (x == 1) == (out == 0)]))
    _ax(out <= x - 1)
    _add(k, Entry('log', x, out, k))
    return out


def log2(x):
    x = R.of(x)
    if x.concrete:
        if x.n > 0 and x.n.denominator == 1 and x.n.numerator & (x.n.numerator - 1) == 0:
            return R(Fr(x.n.numerator.bit_length() - 1))
        return _libm(math.log2, x.n)
    raise EncodingGap('log2 of a symbolic value')


# ------------------------------------------------------------------ trigonometry

def PI():
    """The constant pi of the model: symbolic (with an enclosure) or the double."""
    c = ctx() if have_ctx() else None
    if c is None or c.mode == 'concrete':
        return R(Fr(math.pi))
    if 'PI' not in c.registry:
        p = z3.Real('PI')
        c.axioms.append(p > z3.RealVal('3.14159265358'))
        c.axioms.append(p < z3.RealVal('3.14159265359'))
        c.registry['PI'] = R(p)
    return c.registry['PI']


def _pi_multiple(d: R):
    """k such that d == k*PI/2 for an integer k in -8..8, else None."""
    if ctx().mode == 'concrete':
        return None
    pi = PI()
    for k in range(-8, 9):
        dd = _const_diff(d, pi * Fr(k, 2))
        if dd is not None and dd == 0:
            return k
    return None


def cossin(x):
    x = R.of(x)
    if x.concrete:
        if x.n == 0:
            return R(ONE), R(ZERO)
        return _libm(math.cos, x.n), _libm(math.sin, x.n)
    k, e = _lookup('cs', x)
    if e is not None:
        return e.out
    q = _pi_multiple(x)
    if q is not None:
        tab = {0: (1, 0), 1: (0, 1), 2: (-1, 0), 3: (0, -1)}
        c_, s_ = tab[q % 4]
        return R(Fr(c_)), R(Fr(s_))
    cv, sv = _fresh('cos'), _fresh('sin')
    co, so = R(cv), R(sv)
    _ax(co * co + so * so == 1)
    ents = _entries('cs')
    if len(ents) <= PAIR_LIMIT:
        for o in ents:
            oc, os_ = o.out
            # quarter-turn shifts: x = o + k*pi/2
            q = _pi_multiple(x - o.arg)
            if q is not None:
                r = q % 4
                if r == 0:
                    _ax(sb_and([co == oc, so == os_]))
                elif r == 1:
                    _ax(sb_and([co == -os_, so == oc]))
                elif r == 2:
                    _ax(sb_and([co == -oc, so == -os_]))
                else:
                    _ax(sb_and([co == os_, so == -oc]))
                continue
            q = _pi_multiple(x + o.arg)
            if q is not None:
                # x = -o + k*pi/2
                r = q % 4
                if r == 0:
                    _ax(sb_and([co == oc, so == -os_]))
                elif r == 1:
                    _ax(sb_and([co == os_, so == oc]))
                elif r == 2:
                    _ax(sb_and([co == -oc, so == os_]))
                else:
                    _ax(sb_and([co == -os_, so == -oc]))
                continue
            _ax(sb_or([x != o.arg, sb_and([co == oc, so == os_])]))          # congruence
            _ax(sb_or([x != -o.arg, sb_and([co == oc, so == -os_])]))        # even / odd
            d = _const_diff(x, o.arg + o.arg)
            if d is not None and d == 0:
                _ax(sb_and([co == oc * oc - os_ * os_, so == oc * os_ * 2]))
            d = _const_diff(o.arg, x + x)
            if d is not None and d == 0:
                _ax(sb_and([oc == co * co - so * so, os_ == co * so * 2]))
        for a in ents:
            for b in ents:
                if a is b:
                    continue
                ac, as_ = a.out
                bc, bs = b.out
                d = _const_diff(x, a.arg + b.arg)
                if d is not None and d == 0 and id(a) < id(b):
                    _ax(sb_and([co == ac * bc - as_ * bs, so == as_ * bc + ac * bs]))
                d = _const_diff(a.arg, x + b.arg)
                if d is not None and d == 0:
                    _ax(sb_and([ac == co * bc - so * bs, as_ == so * bc + co * bs]))
    if ctx().mode != 'concrete' and len(ents) <= ctx().limits.get('semantic_addition_limit', 5):
        # semantic (guarded) angle addition among the few arguments present: x = a + b  ->  addition formulas
        for i, a in enumerate(ents):
            ac, as_ = a.out
            for b in ents[i:]:
                bc, bs = b.out
                _ax(sb_or([x != a.arg + b.arg, sb_and([co == ac * bc - as_ * bs, so == as_ * bc + ac * bs])]))
            for b in ents:
                if b is a:
                    continue
                bc, bs = b.out
                _ax(sb_or([a.arg != x + b.arg, sb_and([ac == co * bc - so * bs, as_ == so * bc + co * bs])]))
    if ctx().mode != 'concrete':
        pi = PI()
        tab = {0: (1, 0), 1: (0, 1), 2: (-1, 0), 3: (0, -1)}
        for q in range(-4, 5):
            c_, s_ = tab[q % 4]
            _ax(sb_or([x != pi * Fr(q, 2), sb_and([co == c_, so == s_])]))
    _add(k, Entry('cs', x, (co, so), k))
    return co, so


def cos(x):
    return cossin(x)[0]


def sin(x):
    return cossin(x)[1]


# ------------------------------------------------------------------ erfc

def erfc(x):
    x = R.of(x)
    if x.concrete:
        if x.n == 0:
            return R(ONE)
        return _libm(math.erfc, x.n)
    k, e = _lookup('erfc', x)
    if e is not None:
        return e.out
    v = _fresh('erfc')
    out = R(v)
    c = ctx()
    c.axioms.append(v > 0)
    c.axioms.append(v < 2)
    ents = _entries('erfc')
    if len(ents) <= PAIR_LIMIT:
        for o in ents:
            d = _const_diff(x, -o.arg)
            if d is not None and d == 0:
                _ax(out + o.out == 2)
            else:
                _ax(sb_and([(x < o.arg) == (out > o.out), (x == o.arg) == (out == o.out)]))
                _ax(sb_and([(x < -o.arg) == (out > 2 - o.out), (x == -o.arg) == (out == 2 - o.out)]))
    _ax(sb_and([(x < 0) == (out > 1), (x == 0) == (out == 1)]))
    _add(k, Entry('erfc', x, out, k))
    return out


# ------------------------------------------------------------------ power

def power(a, b):
    """a ** b over the scalar tower."""
    if isinstance(a, ndarray_types()) or isinstance(b, ndarray_types()):
        return NotImplemented
    if isinstance(b, SI) or (isinstance(b, R) and not b.concrete):
        a_ = R.of(a)
        if a_.concrete and a_.n == 10:
            return pow10(b)
        if a_.concrete and a_.n > 0:
            # a**b = 10**(b*log10 a)
            return pow10(R.of(b) * log10(a_))
        raise EncodingGap('symbolic ** symbolic')
    if isinstance(b, C):
        raise EncodingGap('complex exponent')
    bf = b.n if isinstance(b, R) else Fr(b) if isinstance(b, (int, bool, Fr)) else Fr(b)
    if isinstance(a, C):
        return a.__pow__(int(bf)) if bf.denominator == 1 else _gap('complex ** fraction')
    a = R.of(a)
    if bf == 2 and a.sq is not None:
        return a.sq
    if bf.denominator == 1:
        n = bf.numerator
        if n == 0:
            return R(ONE)
        if a.concrete:
            if a.n == 0 and n < 0:
                raise ZeroDivisionError('0.0 cannot be raised to a negative power')
            return R(a.n ** n)
        r = a
        for _ in range(abs(n) - 1):
            r = r * a
        return r if n > 0 else 1 / r
    if bf == Fr(1, 2):
        return sqrt(a)
    if bf == Fr(-1, 2):
        return 1 / sqrt(a)
    if bf.denominator == 2:
        n = bf.numerator
        s = sqrt(a)
        return power(s, n)
    if a.concrete:
        if a.n <= 0:
            raise EncodingGap('non-positive base with fractional exponent')
        if a.n == 10:
            return pow10(R(bf))
        return _libm(lambda t: t ** float(bf), a.n)
    raise EncodingGap(f'symbolic ** {bf}')


def _gap(msg):
    raise EncodingGap(msg)
