"""C19 — unit conversions, Q, number formatting and string parsing are self-consistent."""
import re as _re

ID = 'C19'
FUNCTIONS = [('utils', 'db'), ('utils', 'dbm'), ('utils', 'idb'), ('utils', 'idbm'), ('utils', 'Q'), ('utils', 'rcos'),
             ('utils', 'dec2bin'), ('utils', 'si'), ('utils', 'str2array'), ('utils', '_get_type_array_from_str'), ('utils', 'gaus')]
BOUNDS = {'call-history differential': 'for the blocks of this property registered in vf/history.py (concrete orders / bandwidths / gains / gv configurations, symbolic samples): the call repeated in a session that first ran it with one parameter or one gv setting changed equals the call in a fresh library instance',
          'dB family': 'every positive real / every real dB value, scalars and arrays of length <= 3',
          'rcos': 'every real x, alpha in [0,1], T > 0 (scalar path and arrays of length 2)',
          'dec2bin': 'every integer v in [0, 2^d + 3] for d in 1..16 (quick: d in {1,2,3,5,8,16})',
          'si': 'every real x in [1e-15, 1e15) and x = 0, precision k in {0,1,3}',
          'str2array': 'type cascade for every string of length <= 8 over ASCII 0x09-0x0d, 0x20-0x7e (z3 sequence/regex theory)'}
OUTSIDE = ['str2array inverts the textual form of int/float/complex arrays (number -> text -> number runs through numpy\'s C parser and '
           're.split on symbolic text; only the type-inference cascade, the rejection clause and concrete texts are decided)',
           'integral of gaus equals one (calculus, no bounded algebraic form); gaus is only checked for symmetry and its peak value formula',
           'rounding of the printed mantissa at precision k', 'Unicode-only whitespace characters in str2array input']
ASSUMPTIONS = ['log10 / 10**x / erfc / cos are characterised by the axiom table (inverse pair, homomorphism, monotonicity, symmetry, Pythagoras)']
LIMITS = {'max_paths': 3000}

PREFIX = {'f': -15, 'p': -12, 'n': -9, 'μ': -6, 'u': -6, 'm': -3, '': 0, 'k': 3, 'M': 6, 'G': 9, 'T': 12}


def _raises(fn, exc):
    try:
        fn()
        return False
    except exc:
        return True


def scen_db(env, cfg):
    U = env.lib.utils
    kind = cfg['kind']
    if kind == 'inverse':
        x = env.real('x', 0, None, lo_strict=True)
        y = env.real('y', -300, 300)
        env.check('idb(db(x)) == x', env.eq(U.idb(U.db(x)), x))
        env.check('idbm(dbm(x)) == x', env.eq(U.idbm(U.dbm(x)), x))
        env.check('db(idb(y)) == y', env.eq(U.db(U.idb(y)), y, scale=300))
        env.check('dbm(idbm(y)) == y', env.eq(U.dbm(U.idbm(y)), y, scale=300))
        env.check('dbm(x) == db(x) + 30', env.eq(U.dbm(x), U.db(x) + 30, scale=300))
        env.check('idbm(y) == idb(y) / 1000', env.eq(U.idbm(y) * 1000, U.idb(y)))
    elif kind == 'product':
        x = env.real('x', 0, None, lo_strict=True)
        y = env.real('y', 0, None, lo_strict=True)
        env.check('db(x*y) == db(x)+db(y)', env.eq(U.db(x * y), U.db(x) + U.db(y), scale=300))
        env.check('db is increasing', env.Implies(x < y, U.db(x) < U.db(y)))
        env.check('db(1) == 0 and db(10) == 10 and db(100) == 20 and dbm(1) == 30',
                  env.And(env.eq(U.db(1), 0), env.eq(U.db(10), 10), env.eq(U.db(100), 20), env.eq(U.dbm(1), 30)))
        env.check('idb(0) == 1, idb(10) == 10, idb(-20) == 0.01, idbm(0) == 0.001, idbm(30) == 1',
                  env.And(env.eq(U.idb(0), 1), env.eq(U.idb(10), 10), env.eq(U.idb(-20) * 100, 1), env.eq(U.idbm(0) * 1000, 1), env.eq(U.idbm(30), 1)))
    elif kind == 'sign':
        x = env.real('x', -5, 5)
        env.assume(env.Not(env.eq(x, 0)) if not env.symbolic else x != 0)
        for f in ('db', 'dbm'):
            bad = _raises(lambda: getattr(U, f)(x), ValueError)
            env.check(f'{f}: ValueError iff the input is negative', env.Iff(bad, x < 0))
    elif kind == 'array':
        xs = env.reals('x', 3, -5, 5)
        env.assume(env.And([x != 0 for x in xs]) if env.symbolic else all(abs(x) > 1e-9 for x in xs))
        for form in ('list', 'tuple', 'ndarray'):
            arg = list(xs) if form == 'list' else tuple(xs) if form == 'tuple' else env.arr(list(xs))
            for f in ('db', 'dbm'):
                try:
                    r = getattr(U, f)(arg)
                    bad = False
                except ValueError:
                    bad = True
                env.check(f'{f}({form}): ValueError iff some element is negative', env.Iff(bad, env.Or([x < 0 for x in xs])))
                if not bad:
                    inv = U.idb(r) if f == 'db' else U.idbm(r)
                    env.check(f'i{f}({f}(array)) == array element-wise', env.eqs(inv, xs))
            if form == 'ndarray':
                # the caller keeps using its array: the conversions must not scale it in place, and the identities hold on reuse
                snap = env.snap(arg)
                try:
                    a, b = U.dbm(arg), U.db(arg)
                    again = U.dbm(arg)
                    env.check('dbm(x) == db(x) + 30 on the same ndarray, and a second dbm(x) gives the same values',
                              env.And(env.eqs(a, [v + 30 for v in env.items(b)], scale=300), env.eqs(again, env.items(a), scale=300)))
                except ValueError:
                    pass
                env.check('db / dbm leave their ndarray argument untouched', env.untouched(arg, snap))
    elif kind == 'types':
        for bad in ('3', None, {'a': 1}):
            env.check(f'db({bad!r}) raises TypeError', _raises(lambda: U.db(bad), TypeError))
            env.check(f'dbm({bad!r}) raises TypeError', _raises(lambda: U.dbm(bad), TypeError))


def scen_Q(env, cfg):
    U = env.lib.utils
    x = env.real('x', -40, 40)
    y = env.real('y', -40, 40)
    env.check('Q(x) + Q(-x) == 1', env.eq(U.Q(x) + U.Q(-x), 1, scale=1))
    env.check('Q(0) == 1/2', env.eq(U.Q(0) * 2, 1))
    env.check('Q is strictly decreasing', env.Implies(x < y, U.Q(x) > U.Q(y)) if env.symbolic else
              (not (x < y - 1e-6 and abs(x) < 5 and abs(y) < 5) or U.Q(x) > U.Q(y)))
    env.check('0 < Q(x) < 1', env.And(U.Q(x) > 0, U.Q(x) < 1) if env.symbolic else (abs(x) > 8 or 0 < U.Q(x) < 1))
    env.check('Q(x) == erfc(x/sqrt(2))/2', env.eq(U.Q(x) * 2, env.erfc(x / env.sqrt(2)), scale=1))
    r = U.Q([x, y])
    env.check('Q maps over arrays', env.eqs(r, [U.Q(x), U.Q(y)], scale=1))


def scen_rcos(env, cfg):
    U = env.lib.utils
    kind = cfg['kind']
    x = env.real('x', -3, 3)
    al = env.real('alpha', 0, 1)
    T = env.real('T', 0.1, 4)
    if kind == 'scalar':
        if env.symbolic:
            env.assume(al > 0)        # alpha == 0 has an empty transition band; checked separately below
        else:
            env.assume(al > 1e-3)
        v = U.rcos(x, al, T)
        env.check('0 <= rcos <= 1', env.And(env.le(0, v, 1), env.le(v, 1, 1)))
        env.check('rcos is even', env.eq(U.rcos(-x, al, T), v, scale=1))
        ax = env.ite(x >= 0, x, -x)
        env.check('rcos == 1 for |x| <= (1-alpha)/(2T)', env.Implies(ax <= (1 - al) / (2 * T), env.eq(v, 1)))
        env.check('rcos == 0 for |x| > (1+alpha)/(2T)', env.Implies(ax > (1 + al) / (2 * T), env.eq(v, 0)))
        h = U.rcos(1 / (2 * T), al, T)
        env.check('rcos == 1/2 at 1/(2T) when alpha > 0', env.eq(h * 2, 1, scale=1))
        h2 = U.rcos(-1 / (2 * T), al, T)
        env.check('rcos == 1/2 at -1/(2T) when alpha > 0', env.eq(h2 * 2, 1, scale=1))
    elif kind == 'alpha0':
        v = U.rcos(x, 0, T)
        ax = env.ite(x >= 0, x, -x)
        env.check('alpha = 0: brick wall, 1 inside |x| <= 1/(2T) and 0 outside', env.eq(v, env.ite(ax <= 1 / (2 * T), 1, 0)))
    elif kind == 'array':
        if env.symbolic:
            env.assume(al > 0)
        else:
            env.assume(al > 1e-3)
        x2 = env.real('x2', -3, 3)
        for form in ('list', 'ndarray'):
            arg = [x, x2] if form == 'list' else env.arr([x, x2])
            r = U.rcos(arg, al, T)
            env.check(f'array path ({form}) agrees with the scalar path', env.eqs(r, [U.rcos(x, al, T), U.rcos(x2, al, T)], scale=1))
        env.check('non-array, non-number input raises ValueError', _raises(lambda: U.rcos('a', al, T), (ValueError, TypeError)))


def scen_dec2bin(env, cfg):
    U = env.lib.utils
    d = cfg['d']
    v = env.int('v', 0, (1 << d) + 3)
    try:
        b = U.dec2bin(v, d)
        ok = True
    except ValueError:
        ok = False
    env.check('ValueError iff v >= 2^d', env.Iff(ok, v < (1 << d)))
    if ok:
        bits = env.items(b)
        env.check('d digits, each 0 or 1', len(bits) == d and env.And([env.Or(x == 0, x == 1) for x in bits]))
        env.check('big-endian expansion: sum bits[i]*2^(d-1-i) == v', env.eq(sum(x * (1 << (d - 1 - i)) for i, x in enumerate(bits)), v))
        env.check('dtype uint8', env.dtype_name(b) == 'uint8')


def _parse_si(env, s, unit):
    """(mantissa, power) from the string returned by si()."""
    m = _re.fullmatch(r'(⟦\d+⟧) (.?)' + _re.escape(unit), s) if env.impl == 'model' else None
    if m:
        tok, pre = m.group(1), m.group(2)
        val = next(e[1][1] for e in env.events('fmt') if e[1][0] == tok)
        spec = next(e[1][2] for e in env.events('fmt') if e[1][0] == tok)
        return val, PREFIX[pre], spec
    m = _re.fullmatch(r'(-?[0-9.]+) (.?)' + _re.escape(unit), s)
    if not m:
        return None
    return float(m.group(1)), PREFIX[m.group(2)], None


def scen_si(env, cfg):
    U = env.lib.utils
    k = cfg['k']
    lo, hi = cfg['range']
    x = env.real('x', env.const(lo), env.const(hi), hi_strict=True)
    s = U.si(x, 'Hz', k)
    env.check('si returns a string for every x >= 1e-15', isinstance(s, str))
    if not isinstance(s, str):
        return
    p = _parse_si(env, s, 'Hz')
    env.check('output has the form "<mantissa> <prefix>Hz" with a known SI prefix', p is not None)
    if p is None:
        return
    mant, power, spec = p
    scale = env.const('1e%d' % power) if env.impl == 'model' else 10.0 ** power
    unrounded = x / scale
    env.check('unrounded mantissa lies in [1, 1000)', env.And(unrounded >= 1, unrounded < 1000))
    if spec is not None:
        env.check('printed mantissa times the prefix power gives back x (to the printed precision)', env.eq(mant * scale, x))
    else:
        u = float(unrounded.n) if hasattr(unrounded, 'n') else unrounded
        env.check('printed mantissa times the prefix power gives back x (to the printed precision)',
                  abs(mant - u) <= 0.5 * 10 ** (-k) * (1 + 1e-9) + 1e-9 * abs(u))


def scen_si_zero(env, cfg):
    U = env.lib.utils
    env.check("si(0, 'm') == '0 m'", U.si(0, 'm') == '0 m')
    env.check("si(0.0, 's') == '0 s'", U.si(env.const('0.0'), 's') == '0 s')


ALPHA = [chr(i) for i in list(range(9, 14)) + list(range(32, 127))]
SP = ' \t\n\r\f\v'
SETS = {'bool': set('01,;' + SP), 'int': set('0123456789,;-+' + SP), 'float': set('0123456789,;.+-' + SP),
        'complex': set('0123456789,;.+-ji' + SP)}


def _all_in(env, s, chars, maxlen):
    """every character of s is in `chars` and s is non-empty — the harness's own encoding (not via regex)."""
    if env.symbolic:
        import z3
        from vf.core import SB
        t = s.t
        conds = [z3.Length(t) >= 1]
        for i in range(maxlen):
            conds.append(z3.Or(z3.Length(t) <= i, z3.Or(*[z3.SubString(t, i, 1) == z3.StringVal(c) for c in sorted(chars)])))
        return SB(z3.And(*conds))
    return len(s) >= 1 and all(c in chars for c in s)


def scen_str_cascade(env, cfg):
    U = env.lib.utils
    n = cfg['maxlen']
    s = env.string('s', n, ALPHA)
    t = U._get_type_array_from_str(s)
    got = {bool: 'bool', int: 'int', float: 'float', complex: 'complex', None: 'none'}[t]
    inb, ini, inf_, inc = (_all_in(env, s, SETS[k], n) for k in ('bool', 'int', 'float', 'complex'))
    exp_bool, exp_int = inb, env.And(env.Not(inb), ini)
    exp_float, exp_cplx = env.And(env.Not(ini), inf_), env.And(env.Not(inf_), inc)
    exp = {'bool': exp_bool, 'int': exp_int, 'float': exp_float, 'complex': exp_cplx, 'none': env.Not(inc)}[got]
    env.check('inferred type follows the nested character classes (bool < int < float < complex, else rejected)', exp)
    env.check('the four languages are nested as the order of the tests assumes',
              env.And(env.Implies(inb, ini), env.Implies(ini, inf_), env.Implies(inf_, inc)))
    if got == 'none':
        env.check('str2array raises ValueError on any other character', _raises(lambda: U.str2array(s), ValueError))
        env.check('... also with an explicit dtype', _raises(lambda: U.str2array(s, float), ValueError))


def scen_str_concrete(env, cfg):
    U = env.lib.utils
    np = env.np
    cases = [
        ('1 2 3', None, [1, 2, 3], 'int64'), ('1,2,3', None, [1, 2, 3], 'int64'), ('1.5 2', None, [1.5, 2.0], 'float64'),
        ('1+2j, 3-4j', None, [complex(1, 2), complex(3, -4)], 'complex128'), ('1+2i 3i', None, [complex(1, 2), complex(0, 3)], 'complex128'),
        ('0101', None, [0, 1, 0, 1], 'bool'), ('0 1, 1', None, [0, 1, 1], 'bool'), ('0101', int, [101], 'int64'),
        ('1 0 1', float, [1.0, 0.0, 1.0], 'float64'), ('10 11', complex, [10, 11], 'complex128'), ('-1 +2', None, [-1, 2], 'int64'),
        ('1 2 3', float, [1.0, 2.0, 3.0], 'float64'), ('7', None, [7], 'int64'), ('0.5', complex, [0.5], 'complex128'),
    ]
    for txt, dt, exp, dn in cases:
        a = U.str2array(txt, dt) if dt is not None else U.str2array(txt)
        env.check(f'str2array({txt!r}, {getattr(dt, "__name__", None)}) == {exp}',
                  a.ndim == 1 and env.dtype_name(a) == dn and env.eqs(a, exp))
    for txt, dt, exp in [('1 2;3 4', None, [[1, 2], [3, 4]]), ('1.5,2;3,4', None, [[1.5, 2.0], [3.0, 4.0]]), ('01;10', None, [[0, 1], [1, 0]]),
                         ('1j 2;3 4', None, [[1j, 2], [3, 4]]), ('0 1;1 0', int, [[0, 1], [1, 0]])]:
        a = U.str2array(txt, dt) if dt is not None else U.str2array(txt)
        env.check(f'2-D text {txt!r}', a.shape == (2, 2) and env.eqs(a, [v for r in exp for v in r]))
    for bad in ('1 2 a', '1e3', '1_000', '[1,2]', '1 2 3!', 'one'):
        env.check(f'str2array({bad!r}) raises ValueError', _raises(lambda: U.str2array(bad), ValueError))


def scen_gaus(env, cfg):
    U = env.lib.utils
    x = env.real('x', -6, 6)
    mu = env.real('mu', -3, 3)
    sd = env.real('std', 0.1, 5)
    a, b = U.gaus(mu + x, mu, sd), U.gaus(mu - x, mu, sd)
    env.check('gaus is symmetric about mu', env.eq(a, b, scale=10))
    pk = U.gaus(mu, mu, sd)
    env.check('peak value is 1/(std*sqrt(2*pi))', env.eq(pk * sd * env.sqrt(2 * env.pi()), 1, scale=1))
    env.check('gaus is positive', a > 0 if env.symbolic else a >= 0)


def configs(tier):
    q = tier == 'quick'
    out = []
    for kind in ('inverse', 'product', 'sign', 'array', 'types'):
        out.append((f'db-{kind}', scen_db, dict(kind=kind), {}))
    out.append(('Q', scen_Q, {}, {}))
    for kind in ('scalar', 'alpha0', 'array'):
        out.append((f'rcos-{kind}', scen_rcos, dict(kind=kind), {}))
    for d in ((1, 2, 3, 5, 8, 16) if q else range(1, 17)):
        out.append((f'dec2bin-d{d}', scen_dec2bin, dict(d=d), {}))
    decades = [('1e-15', '1e-12'), ('1e-12', '1e-9'), ('1e-9', '1e-6'), ('1e-6', '1e-3'), ('1e-3', '1'), ('1', '1e3'), ('1e3', '1e6'),
               ('1e6', '1e9'), ('1e9', '1e12'), ('1e12', '1e15')]
    for lo, hi in decades:
        for k in ((1,) if q else (0, 1, 3)):
            out.append((f'si-{lo}-k{k}', scen_si, dict(range=(lo, hi), k=k), {}))
    out.append(('si-all-decades', scen_si, dict(range=('1e-15', '1e15'), k=2), {}))
    out.append(('si-zero', scen_si_zero, {}, {}))
    for n in ((3, 6) if q else (2, 4, 8)):
        out.append((f'str-cascade-len{n}', scen_str_cascade, dict(maxlen=n), {'limits': {'query_timeout_ms': 120000}}))
    out.append(('str-concrete', scen_str_concrete, {}, {}))
    out.append(('gaus', scen_gaus, {}, {}))
    from vf import history as _history        # call-history differential of this property's blocks (vf/history.py)
    out += _history.configs_for('C19')
    return out
