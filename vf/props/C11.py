"""C11 — LPF/BPF are linear zero-phase filters with unit DC gain and -6 dB at cutoff (partial: the Bessel design is scipy's)."""
import math

ID = 'C11'
FUNCTIONS = [('devices', 'LPF'), ('devices', 'BPF')]
BOUNDS = {'call-history differential': 'for the blocks of this property registered in vf/history.py (concrete orders / bandwidths / gains / gv configurations, symbolic samples): the call repeated in a session that first ran it with one parameter or one gv setting changed equals the call in a fresh library instance',
          'call sites': 'BW, fs and the order n symbolic (design recorded, not executed): every parameter value',
          'concrete designs': 'grid BW/fs in {0.05, 0.2, 0.44} x n in {2, 4} (quick) / {0.02,0.05,0.1,0.2,0.3,0.44} x {1,2,4,8} (thorough); '
                              'records of 17..28 symbolic samples; filter matrix = real scipy sosfiltfilt applied to the identity',
          'tone clauses': 'records of 128 samples, interior window 32..96, tone a*cos(wk)+b*sin(wk) with symbolic (a, b); cutoff tone and a ladder of frequencies'}
OUTSIDE = ['the Bessel design between the grid points (pole placement and the recursion are scipy\'s)', 'records shorter than the edge padding',
           'tones near the record edges']
ASSUMPTIONS = ['scipy.signal.sosfiltfilt is linear in its input for fixed coefficients (documented construction: odd extension, steady-state '
               'initial conditions proportional to the first sample, two sosfilt passes); the matrix is read off the real scipy on every run',
               'tone samples cos(wk), sin(wk) are evaluated in double precision']
LIMITS = {'max_paths': 40, 'query_timeout_ms': 120000}


def _gv(env, fs_text='2e9'):
    T = env.lib.typing
    T.gv(sps=2, R=env.const(str(float(fs_text) / 2)))
    return float(fs_text)


def _ref_matrix(n, wn, fs, L):
    import numpy
    import scipy.signal as sg
    sos = sg.bessel(N=n, Wn=wn, btype='low', fs=fs, output='sos', norm='mag')
    return sg.sosfiltfilt(sos, numpy.eye(L), axis=0), sos


def _apply(env, M, xs):
    out = []
    for i in range(len(xs)):
        acc = 0
        for j, x in enumerate(xs):
            m = float(M[i, j])
            if m != 0.0:
                acc = acc + x * env.num(m)
        out.append(acc)
    return out


# ------------------------------------------------------------------------------------------------ call sites

def scen_callsite(env, cfg):
    D, T = env.lib.devices, env.lib.typing
    kind, form, noise, fsarg = cfg['kind'], cfg['form'], cfg['noise'], cfg.get('fsarg', False)
    T.gv(sps=2, R=env.real('R', 1e8, 1e11))
    gvfs = T.gv.fs
    BW = env.real('BW', 1e6, 1e10)
    n = cfg['order']
    L = 30
    if kind == 'LPF':
        # a fixed probe is added so that concrete replays never degenerate to the zero record
        if cfg.get('vtype') == 'int':
            # a record of integer samples (ADC codes, an upsampled bit pattern): the container keeps the integer dtype
            s = [env.int(f's[{i}]', -3, 3) + (1 if i == 7 else 0) for i in range(L)]
        else:
            s = [v + (1 if i == 7 else env.const('0.25')) for i, v in enumerate(env.reals('s', L, -3, 3))]
        w = [v + (1 if i == 11 else 0) for i, v in enumerate(env.reals('w', L, -3, 3))] if noise else None
        arg = T.electrical_signal(list(s), list(w) if noise else None) if form == 'es' else env.arr(list(s))
        kw = {}
        if fsarg:
            kw['fs'] = env.real('fs', 1e8, 1e11)
        env.assume(BW * 2 < kw.get('fs', gvfs))         # documented precondition: 0 < cutoff < fs/2 (scipy rejects anything else)
        y = D.LPF(arg, BW, n, **kw) if n is not None else D.LPF(arg, BW, **kw)
        exp_wn, exp_fs = BW, kw.get('fs', gvfs)
    else:
        pol = cfg['pol']
        S = [[v + (1 if i == 7 else env.const('0.25')) for i, v in enumerate(env.cplxs(f's{p}', L, -3, 3))] for p in range(pol)]
        N = [[v + (1 if i == 11 else 0) for i, v in enumerate(env.cplxs(f'w{p}', L, -3, 3))] for p in range(pol)] if noise else None
        arg = T.optical_signal(list(S[0]), list(N[0]) if noise else None) if pol == 1 else \
            T.optical_signal([list(r) for r in S], [list(r) for r in N] if noise else None)
        env.assume(BW < gvfs)                            # cutoff BW/2 < fs/2
        y = D.BPF(arg, BW, n) if n is not None else D.BPF(arg, BW)
        exp_wn, exp_fs = BW / 2, gvfs
    if not env.symbolic:
        # concrete runs (validation / replay): the same clauses are read off the outputs against the reference design
        import numpy
        import scipy.signal as sg
        f = lambda v: float(v.n) if hasattr(v, 'n') else float(v)
        sos = sg.bessel(N=(n if n is not None else 4), Wn=f(exp_wn), btype='low', fs=f(exp_fs), output='sos', norm='mag')
        tonp = lambda a: numpy.array([complex(f(env.re(v)), f(env.im(v))) for v in env.items(a)]).reshape(a.shape)
        src_sig = arg.signal if form != 'ndarray' else arg
        ref = sg.sosfiltfilt(sos, tonp(src_sig), axis=-1)
        got = tonp(y.signal)
        ok = bool(numpy.allclose(got, ref.real if kind == 'LPF' else ref, rtol=1e-6, atol=1e-9))
        if noise:
            refn = sg.sosfiltfilt(sos, tonp(arg.noise), axis=-1)
            ok = ok and y.noise is not None and bool(numpy.allclose(tonp(y.noise), refn.real if kind == 'LPF' else refn, rtol=1e-6, atol=1e-9))
        else:
            ok = ok and y.noise is None
        for nm in ('exactly one filter design call', "design: Bessel low-pass, norm='mag', second-order sections, not analog",
                   'design order is the requested one (default 4)', 'cutoff passed to the design: BW for LPF, BW/2 for BPF',
                   'sampling rate passed to the design: the fs argument, else gv.fs',
                   'forward-backward application (sosfiltfilt) with that design: once on the signal and, iff present, once on the noise',
                   'the signal is what is filtered into .signal, the noise into .noise (same filter)',
                   'noise present on the output iff present on the input; shape preserved'):
            env.check(nm, ok)
        return
    designs = [e[1] for e in env.events('bessel')]
    filts = [e[1] for e in env.events('sosfiltfilt')]
    env.check('exactly one filter design call', len(designs) == 1)
    d = designs[0]
    env.check("design: Bessel low-pass, norm='mag', second-order sections, not analog",
              d['btype'] == 'low' and d['norm'] == 'mag' and d['output'] == 'sos' and not d['analog'])
    env.check('design order is the requested one (default 4)', d['N'] == (n if n is not None else 4))
    env.check('cutoff passed to the design: BW for LPF, BW/2 for BPF', env.eq(d['Wn'], exp_wn, scale=1e10))
    env.check('sampling rate passed to the design: the fs argument, else gv.fs', env.eq(d['fs'], exp_fs, scale=1e11))
    env.check('forward-backward application (sosfiltfilt) with that design: once on the signal and, iff present, once on the noise',
              len(filts) == (2 if noise else 1) and all(f['sos'].args is d for f in filts) and all(f['axis'] in (-1, None) or f['axis'] == -1 for f in filts))
    src_sig = arg.signal if form != 'ndarray' else arg
    env.check('the signal is what is filtered into .signal, the noise into .noise (same filter)',
              env.eqs(filts[0]['x'], env.items(src_sig)) and ((not noise) or env.eqs(filts[1]['x'], env.items(arg.noise))))
    env.check('noise present on the output iff present on the input; shape preserved',
              (y.noise is not None) == bool(noise) and y.signal.shape == src_sig.shape)
    if kind == 'LPF':
        env.check('LPF returns real-valued components', env.dtype_name(y.signal) == 'float64')


# ------------------------------------------------------------------------------------------------ concrete designs

def scen_linear(env, cfg):
    D, T = env.lib.devices, env.lib.typing
    kind, n, ratio, L = cfg['kind'], cfg['order'], cfg['ratio'], cfg['L']
    fs = _gv(env)
    BW = ratio * fs
    BWc = env.num(BW)
    wn = BW if kind == 'LPF' else BW / 2
    M, sos = _ref_matrix(n, wn, fs, L)
    a = env.real('a', -3, 3)
    b = env.real('b', -3, 3)
    if kind == 'LPF':
        xs, ys = env.reals('x', L, -3, 3), env.reals('y', L, -3, 3)
        nx = env.reals('nx', L, -3, 3)
        mk = lambda s, w=None: T.electrical_signal(list(s), list(w) if w is not None else None)
        F = lambda o: D.LPF(o, BWc, n)
    else:
        xs, ys = env.cplxs('x', L, -3, 3), env.cplxs('y', L, -3, 3)
        nx = env.cplxs('nx', L, -3, 3)
        mk = lambda s, w=None: T.optical_signal(list(s), list(w) if w is not None else None)
        F = lambda o: D.BPF(o, BWc, n)
    ox = mk(xs, nx)
    sn = [env.snap(ox.signal), env.snap(ox.noise)]
    fx = F(ox)
    fy = F(mk(ys))
    fc = F(mk([a * u + b * v for u, v in zip(xs, ys)]))
    env.check('F(a*x + b*y) == a*F(x) + b*F(y)',
              env.And([env.eq(c, a * u + b * v, scale=30) for c, u, v in zip(env.items(fc.signal), env.items(fx.signal), env.items(fy.signal))]))
    env.check('the signal output is the reference forward-backward Bessel filter of the signal only (cutoff BW for LPF, BW/2 for BPF)',
              env.And([env.eq(u, v, scale=30) for u, v in zip(env.items(fx.signal), _apply(env, M, xs))]))
    env.check('the noise output is the same filter applied to the noise only',
              fx.noise is not None and env.And([env.eq(u, v, scale=30) for u, v in zip(env.items(fx.noise), _apply(env, M, nx))]))
    env.check('length preserved; input untouched; output not aliased',
              len(env.items(fx.signal)) == L and env.untouched(ox.signal, sn[0]) and env.untouched(ox.noise, sn[1]) and not env.shares(fx.signal, ox.signal))
    c = env.real('c', -5, 5)
    fk = F(mk([c] * L))
    ac = env.ite(c >= 0, c, -c)
    tol = ac * env.const('1e-9') + env.const('1e-12')
    env.check('a constant input passes unchanged (unit DC gain, |out - c| <= 1e-9 |c|)',
              env.And([env.And(env.le(env.re(u) - c, tol, 5), env.le(c - env.re(u), tol, 5)) for u in env.items(fk.signal)]))
    if kind == 'LPF':
        fa = D.LPF(env.arr(list(xs)), BWc, n)
        env.check('ndarray input gives the same result as a container input', env.eqs(fa.signal, env.items(fx.signal), scale=30) and fa.noise is None)
        yr, H = D.LPF(mk(xs), BWc, n, retH=True)
        import scipy.signal as sg
        import numpy
        _, Href = sg.sosfreqz(sos, worN=L, fs=fs, whole=True)
        Href = numpy.fft.fftshift(Href)
        env.check('retH is the single-pass prototype response on the FFT grid of the record (fftshift-ed)',
                  env.And([env.eq(u, env.cx(env.num(v.real), env.num(v.imag)), scale=1) for u, v in zip(env.items(H), Href)]))
    else:
        zs = env.cplxs('z', L, -3, 3)
        two = T.optical_signal([list(xs), list(zs)])
        f2 = D.BPF(two, BWc, n)
        fz = F(mk(zs))
        r = env.rows(f2.signal)
        env.check('polarisations are filtered independently and identically',
                  env.And([env.eq(u, v, scale=30) for u, v in zip(r[0], env.items(fx.signal))] +
                          [env.eq(u, v, scale=30) for u, v in zip(r[1], env.items(fz.signal))]))
        try:
            D.BPF(env.arr(list(xs)), BWc)
            ok = True
        except TypeError:
            ok = False
        env.check('BPF rejects a non-optical input', not ok)


def scen_tone(env, cfg):
    D, T = env.lib.devices, env.lib.typing
    kind, n, ratio = cfg['kind'], cfg['order'], cfg['ratio']
    L, lo, hi = 128, 32, 96
    fs = _gv(env)
    BW = ratio * fs
    BWc = env.num(BW)
    fc = BW if kind == 'LPF' else BW / 2
    a = env.real('a', -3, 3)
    b = env.real('b', -3, 3)
    nz = env.Or(a >= 0.1, a <= -0.1, b >= 0.1, b <= -0.1)
    env.assume(nz)
    K = env.num

    def run(f):
        w = 2 * math.pi * f / fs
        x = [a * K(math.cos(w * k)) + b * K(math.sin(w * k)) for k in range(L)]
        if kind == 'LPF':
            y = D.LPF(T.electrical_signal(x), BWc, n)
        else:
            y = D.BPF(T.optical_signal(x), BWc, n)
        ys = [env.re(v) for v in env.items(y.signal)]
        pin = sum(v * v for v in x[lo:hi])
        pout = sum(v * v for v in ys[lo:hi])
        return pin, pout
    pin, pout = run(fc)
    q = env.const('0.25')
    env.check('a tone at the cutoff is attenuated by 6.0 dB (power ratio 1/4 within 1 %) away from the record edges',
              env.And(env.le(pout, pin * q * env.const('1.01'), 100), env.le(pin * q * env.const('0.99'), pout, 100)))
    prev = None
    for mult in cfg['ladder']:
        pi_, po_ = run(fc * mult)
        env.check(f'tone at {mult}*cutoff: never more power out than in', env.le(po_, pi_ * env.const('1.000001'), 100))
        if prev is not None:
            # attenuation grows with frequency: po/pi non-increasing  <=>  po*pi_prev <= po_prev*pi
            env.check(f'attenuation at {mult}*cutoff is at least the attenuation at the previous ladder frequency',
                      env.le(po_ * prev[0], prev[1] * pi_ * env.const('1.001'), 1e4))
        prev = (pi_, po_)


def scen_symmetry(env, cfg):
    D, T = env.lib.devices, env.lib.typing
    kind, n, ratio = cfg['kind'], cfg['order'], cfg['ratio']
    cut = ratio if kind == 'LPF' else ratio / 2
    L = max(65, int(8 / cut) | 1)          # "away from the record edges": the record spans several impulse-response lengths
    c = L // 2
    fs = _gv(env)
    BWc = env.num(ratio * fs)
    h = env.reals('h', 4, 0, 3)
    x = [0 * h[0]] * L
    for i, v in enumerate(h):
        x[c + i] = v
        x[c - i] = v
    y = D.LPF(T.electrical_signal(x), BWc, n) if kind == 'LPF' else D.BPF(T.optical_signal(x), BWc, n)
    ys = [env.re(v) for v in env.items(y.signal)]
    tol = (h[0] + h[1] + h[2] + h[3]) * env.const('1e-5') + env.const('1e-9')
    env.check('no delay: the response to a symmetric pulse is symmetric about the same instant',
              env.And([env.And(env.le(ys[c + i] - ys[c - i], tol, 10), env.le(ys[c - i] - ys[c + i], tol, 10)) for i in range(1, c)]))


def scen_history(env, cfg):
    """the design follows the sampling rate now in gv: the same filter call repeated after gv is reconfigured."""
    D, T = env.lib.devices, env.lib.typing
    kind = cfg['kind']
    L = 30
    BW = env.num(2e9)
    import numpy
    import scipy.signal as sg
    f = lambda v: float(v.n) if hasattr(v, 'n') else float(v)
    xs = [v + (1 if i == 7 else env.const('0.25')) for i, v in enumerate(env.reals('s', L, -3, 3))]
    for step, (sps, R) in enumerate(((2, '8e9'), (4, '8e9'), (2, '8e9'), (8, '4e9'))):
        T.gv(sps=sps, R=env.const(R))
        fs = sps * float(R)
        y = D.LPF(T.electrical_signal(list(xs)), BW) if kind == 'LPF' else D.BPF(T.optical_signal(list(xs)), BW)
        sos = sg.bessel(N=4, Wn=(2e9 if kind == 'LPF' else 1e9), btype='low', fs=fs, output='sos', norm='mag')
        ref = sg.sosfiltfilt(sos, numpy.eye(L), axis=0)
        exp = [sum(xs[j] * env.num(ref[i, j]) for j in range(L) if ref[i, j] != 0.0) for i in range(L)]
        env.check(f'call {step} (fs = {fs:g}): the filter is designed for the sampling rate now in force, whatever was designed before',
                  env.And([env.eq(env.re(u), v, scale=30) for u, v in zip(env.items(y.signal), exp)]))


def configs(tier):
    q = tier == 'quick'
    out = []
    for kind in ('LPF', 'BPF'):
        for noise in (False, True):
            for order in (None, 2, 6):
                if kind == 'LPF':
                    for form in ('es', 'ndarray'):
                        if form == 'ndarray' and noise:
                            continue
                        for fsarg in (False, True):
                            out.append((f'callsite-LPF-{form}-{"noise" if noise else "clean"}-n{order}-{"fsarg" if fsarg else "gvfs"}', scen_callsite,
                                        dict(kind='LPF', form=form, noise=noise, order=order, fsarg=fsarg), {'validate': 1}))
                else:
                    for pol in (1, 2):
                        out.append((f'callsite-BPF-pol{pol}-{"noise" if noise else "clean"}-n{order}', scen_callsite,
                                    dict(kind='BPF', form='os', pol=pol, noise=noise, order=order), {'validate': 1}))
    for form in ('es', 'ndarray'):
        out.append((f'callsite-LPF-{form}-clean-nNone-gvfs-int-samples', scen_callsite,
                    dict(kind='LPF', form=form, noise=False, order=None, fsarg=False, vtype='int'), {'validate': 1}))
    for kind in ('LPF', 'BPF'):
        out.append((f'history-{kind}-gv-reconfigured', scen_history, dict(kind=kind), {'validate': 1}))
    grid = [(0.05, 2), (0.2, 4), (0.44, 4)] if q else [(r, n) for r in (0.02, 0.05, 0.1, 0.2, 0.3, 0.44) for n in (1, 2, 4, 8)]
    for ratio, n in grid:
        L = 28 if n == 8 else 17
        for kind in ('LPF', 'BPF'):
            r = ratio if kind == 'LPF' else min(0.88, 2 * ratio)        # BPF: BW/2 is the cutoff handed to the design
            out.append((f'linear-{kind}-bw{r}-n{n}', scen_linear, dict(kind=kind, order=n, ratio=r, L=L), {'validate': 1}))
    tones = [(0.1, 4, 'LPF'), (0.2, 2, 'BPF')] if q else [(r, n, k) for r in (0.05, 0.1, 0.2) for n in (2, 4) for k in ('LPF', 'BPF')]
    for ratio, n, kind in tones:
        out.append((f'tone-{kind}-bw{ratio}-n{n}', scen_tone, dict(kind=kind, order=n, ratio=ratio, ladder=(0.5, 1.5) if q else (0.25, 0.5, 0.75, 1.25, 1.5, 2.0)),
                    {'validate': 1}))
        out.append((f'symmetry-{kind}-bw{ratio}-n{n}', scen_symmetry, dict(kind=kind, order=n, ratio=ratio), {'validate': 1}))
    from vf import history as _history        # call-history differential of this property's blocks (vf/history.py)
    out += _history.configs_for('C11')
    return out
