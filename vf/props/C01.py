"""C01 — signal containers keep their shape/noise contract; operands are never touched."""
import operator

ID = 'C01'
FUNCTIONS = [('typing', 'electrical_signal.__init__'), ('typing', 'optical_signal.__init__'),
             ('typing', 'electrical_signal.__add__'), ('typing', 'electrical_signal.__radd__'),
             ('typing', 'electrical_signal.__sub__'), ('typing', 'electrical_signal.__rsub__'),
             ('typing', 'electrical_signal.__mul__'), ('typing', 'electrical_signal.__rmul__'),
             ('typing', 'electrical_signal.__getitem__'), ('typing', 'optical_signal.__getitem__'),
             ('typing', 'electrical_signal.__call__'), ('typing', 'electrical_signal.copy'),
             ('typing', 'electrical_signal.len'), ('typing', 'electrical_signal.apply')]
BOUNDS = {'quick': 'lengths 1..3 (operators) / 1..4 (slices), 1 and 2 polarisations, 4 noise patterns, int/float/complex values; '
                   'length rejection: objects of another length, and list/tuple operands two elements longer than an object of length 1 or 2, for + - * in both orders',
          'thorough': 'lengths 1..5, every container kind on both sides, dtype argument in {None,int,float,complex}',
          'symbolic': 'every sample value of signal and noise of both operands, scalar operands, slice bounds (forked over their range)',
          'induction': 'one operator/slice/copy step from arbitrary valid operands; the pair-model oracle is compositional, so expression '
                       'trees of any depth follow from the step'}
OUTSIDE = ['lengths above the bound (the code has no length-dependent branch other than len == 1, which is inside)',
           'symbolic string contents', 'ndarray on the left-hand side (excluded by the property)',
           'operands of different polarisation counts (not in the property\'s operand kinds)']
ASSUMPTIONS = ['a raw 1-D container added to a two-polarisation signal broadcasts over both polarisations (numpy semantics of the code)']
LIMITS = {'max_paths': 3000}


def _vals(env, name, n, vt):
    if vt == 'int':
        return [env.int(f'{name}[{i}]', -9, 9) for i in range(n)]
    if vt == 'complex':
        return env.cplxs(name, n, -9, 9)
    return env.reals(name, n, -9, 9)


def mk(env, cls, n, pol, noise, vt, name, dtype=None):
    """Build an object of class cls; returns (obj, S rows, N rows|None) — the plain pair model."""
    T = env.lib.typing
    S = [_vals(env, f'{name}.s{p}', n, vt) for p in range(pol)]
    N = [_vals(env, f'{name}.n{p}', n, vt) for p in range(pol)] if noise else None
    kw = {}
    if dtype is not None:
        kw['dtype'] = dtype
    if cls == 'es':
        o = T.electrical_signal(list(S[0]), list(N[0]) if noise else None, **kw)
    elif pol == 1:
        o = T.optical_signal(list(S[0]), list(N[0]) if noise else None, **kw)
    else:
        o = T.optical_signal([list(r) for r in S], [list(r) for r in N] if noise else None, **kw)
    return o, S, N


def valid(env, o, cls, pol, n):
    T = env.lib.typing
    klass = T.electrical_signal if cls == 'es' else T.optical_signal
    conds = [type(o) is klass]
    sig, nz = o.signal, o.noise
    if cls == 'os':
        conds.append(o.n_pol == pol)
    if pol == 1:
        conds += [sig.ndim == 1, sig.shape == (n,)]
    else:
        conds += [sig.ndim == 2, sig.shape == (2, n)]
    conds.append(n >= 1)
    if nz is not None:
        conds += [nz.shape == sig.shape, env.dtype_name(nz) == env.dtype_name(sig)]
    conds.append(o.len() == n and len(o) == n)
    return all(conds)


def rows_of(env, o):
    sig = env.rows(o.signal)
    nz = env.rows(o.noise) if o.noise is not None else None
    return sig, nz


def total(S, N):
    if N is None:
        return [list(r) for r in S]
    return [[a + b for a, b in zip(rs, rn)] for rs, rn in zip(S, N)]


def bcast(rows, pol, n):
    """broadcast a pair-model component (list of rows) to pol x n."""
    out = []
    for p in range(pol):
        r = rows[p] if len(rows) > 1 else rows[0]
        out.append(list(r) if len(r) == n else [r[0]] * n)
    return out


# ------------------------------------------------------------------ constructors

def scen_ctor(env, cfg):
    T = env.lib.typing
    cls, form, n, noise, n_pol, dtype, vt = (cfg[k] for k in ('cls', 'form', 'n', 'noise', 'n_pol', 'dtype', 'vtype'))
    dt = {None: None, 'int': int, 'float': float, 'complex': complex}[dtype]

    def build(name):
        if form == 'scalar':
            v = _vals(env, name, 1, vt)
            return v[0], [v]
        if form in ('list', 'tuple', 'ndarray'):
            v = _vals(env, name, n, vt)
            c = list(v) if form == 'list' else tuple(v) if form == 'tuple' else env.arr(list(v))
            return c, [v]
        if form == '2d1':
            v = _vals(env, name, n, vt)
            return env.arr([list(v)]), [v]
        if form == '2d2':
            v0, v1 = _vals(env, name + 'x', n, vt), _vals(env, name + 'y', n, vt)
            return env.arr([list(v0), list(v1)]), [v0, v1]
        raise KeyError(form)
    sarg, S = build('s')
    narg, N = build('w') if noise else (None, None)
    snaps = [(a, env.snap(a)) for a in (sarg, narg) if form in ('ndarray', '2d1', '2d2') and a is not None]
    kw = {}
    if dt is not None:
        kw['dtype'] = dt
    if cls == 'os' and n_pol is not None:
        kw['n_pol'] = n_pol
    try:
        if cls == 'es':
            o = T.electrical_signal(sarg, narg, **kw)
        else:
            o = T.optical_signal(sarg, narg, **kw)
        ok = True
    except ValueError as e:
        ok, err = False, str(e)
    length = 1 if form == 'scalar' else n
    if cls == 'es':
        expect_ok = form not in ('2d1', '2d2')
        pol = 1
    else:
        expect_ok = True
        pol = n_pol if n_pol is not None else (2 if form in ('2d1', '2d2') else 1)
    env.check('documented constructor form is accepted (2-D rejected for electrical_signal)', ok == expect_ok)
    if not ok or not expect_ok:
        return
    env.check('result satisfies the container contract', valid(env, o, cls, pol, length))
    # documented duplication / selection rule
    def expect(rows):
        if rows is None:
            return None
        if pol == 1:
            return [rows[0]]
        return [rows[0], rows[1] if len(rows) > 1 else rows[0]]
    cast = (lambda v: v) if dt is None or vt == dtype else None
    ES, EN = expect(S), expect(N)
    gs, gn = rows_of(env, o)
    if dt is None or dtype == vt or (vt, dtype) in (('int', 'float'), ('int', 'complex'), ('float', 'complex')):
        env.check('signal equals the input under the duplication/selection rule',
                  env.And([env.eq(a, b) for ra, rb in zip(gs, ES) for a, b in zip(ra, rb)]) if len(gs) == len(ES) else False)
        env.check('noise equals the input noise under the same rule (None iff no noise was given)',
                  (gn is None) if EN is None else (gn is not None and len(gn) == len(EN) and
                                                   env.And([env.eq(a, b) for ra, rb in zip(gn, EN) for a, b in zip(ra, rb)])))
    if dt is not None:
        want = {'int': 'int64', 'float': 'float64', 'complex': 'complex128'}[dtype]
        env.check('explicit dtype honoured for signal and noise',
                  env.dtype_name(o.signal) == want and (o.noise is None or env.dtype_name(o.noise) == want))
    for a, sn in snaps:
        env.check('argument arrays untouched and not aliased by the result',
                  env.And(env.untouched(a, sn), not env.shares(o.signal, a), not (o.noise is not None and env.shares(o.noise, a))))


# ------------------------------------------------------------------ binary operators

OPS = {'add': operator.add, 'sub': operator.sub, 'mul': operator.mul}


def scen_binop(env, cfg):
    T = env.lib.typing
    cls, n, pol, an, vt, op, okind, refl = (cfg[k] for k in ('cls', 'n', 'pol', 'a_noise', 'vtype', 'op', 'other', 'reflected'))
    a, AS, AN = mk(env, cls, n, pol, an, vt, 'a')
    snaps = [(a.signal, env.snap(a.signal)), (a.noise, env.snap(a.noise))]
    ovt = cfg.get('ovtype', vt)
    BN = None
    expect_error = False
    if okind in ('obj', 'obj1', 'objm'):
        m = n if okind == 'obj' else 1 if okind == 'obj1' else cfg['m']
        b, BS, BN = mk(env, cls, m, pol, cfg['b_noise'], ovt, 'b')
        snaps += [(b.signal, env.snap(b.signal)), (b.noise, env.snap(b.noise))]
        expect_error = (m != n and m != 1)
    elif okind == 'scalar':
        v = _vals(env, 'b', 1, ovt)
        b, BS = v[0], [v]
    elif okind in ('list', 'tuple', 'ndarray'):
        m = cfg.get('m', n)
        v = _vals(env, 'b', m, ovt)
        b = list(v) if okind == 'list' else tuple(v) if okind == 'tuple' else env.arr(list(v))
        BS = [v]
        if okind == 'ndarray':
            snaps.append((b, env.snap(b)))
        expect_error = (m != n and m != 1)
    elif okind == 'str':
        txt = cfg['text']
        b = txt
        vals = [int(t) for t in txt.replace(',', ' ').split()]
        BS = [[env.const(str(x)) if False else x for x in vals]]
        expect_error = (len(vals) != n and len(vals) != 1)
    else:
        raise KeyError(okind)
    f = OPS[op]
    try:
        r = f(b, a) if refl else f(a, b)
        ok = True
    except ValueError:
        ok = False
    env.check('operands of different lengths are rejected with ValueError; matching / length-1 / scalar operands accepted',
              ok == (not expect_error))
    if ok and not expect_error:
        env.check('result satisfies the contract: same class, polarisation count and length', valid(env, r, cls, pol, n))
        has_noise = an or (BN is not None)
        if op in ('add', 'sub'):
            env.check('result carries noise iff at least one operand does', (r.noise is not None) == has_noise)
            TA = total(AS, AN)
            TB = total(bcast(BS, pol, n), bcast(BN, pol, n) if BN is not None else None)
            RS, RN = rows_of(env, r)
            TR = total(RS, RN)
            if op == 'add':
                exp = [[x + y for x, y in zip(ra, rb)] for ra, rb in zip(TA, TB)]
            elif refl:
                exp = [[y - x for x, y in zip(ra, rb)] for ra, rb in zip(TA, TB)]
            else:
                exp = [[x - y for x, y in zip(ra, rb)] for ra, rb in zip(TA, TB)]
            env.check('total field of the result equals the sum/difference of the operands\' total fields',
                      env.And([env.eq(x, y) for rr, re_ in zip(TR, exp) for x, y in zip(rr, re_)]))
        shared = False
        for arr, sn in snaps:
            if arr is None:
                continue
            shared = shared or env.shares(r.signal, arr) or (r.noise is not None and env.shares(r.noise, arr))
        env.check('result shares no memory with its operands', not shared)
    env.check('operands are left unchanged', env.And([env.untouched(arr, sn) for arr, sn in snaps]))


# ------------------------------------------------------------------ slicing / copy / apply / transforms

def scen_slice(env, cfg):
    cls, n, pol, noise, vt, form = (cfg[k] for k in ('cls', 'n', 'pol', 'noise', 'vtype', 'form'))
    a, S, N = mk(env, cls, n, pol, noise, vt, 'a')
    snaps = [(a.signal, env.snap(a.signal)), (a.noise, env.snap(a.noise))]
    if form == 'int':
        i = operator.index(env.int('i', -n, n - 1))
        sel = lambda row: [row[i]]
        key = i
    elif form == 'copy':
        key = None
        sel = lambda row: list(row)
    elif form == 'copyn':
        k = operator.index(env.int('k', 0, n + 1))
        key = None
        sel = lambda row: list(row)[:k]
    else:
        def opt(name, lo, hi):
            if cfg.get(name) == 'none':
                return None
            return operator.index(env.int(name, lo, hi))
        start = opt('start', -(n + 1), n + 1)
        stop = opt('stop', -(n + 1), n + 1)
        key = slice(start, stop, cfg['step'])
        sel = lambda row: list(row)[key]
    exp_len = len(sel(S[0]))
    try:
        if form == 'copy':
            r = a.copy()
        elif form == 'copyn':
            r = a.copy(k)
        else:
            r = a[key]
        ok = True
    except ValueError:
        ok = False
    env.check('ValueError exactly when the selection is empty', ok == (exp_len >= 1))
    if ok and exp_len >= 1:
        env.check('result satisfies the contract with the selected length', valid(env, r, cls, pol, exp_len))
        RS, RN = rows_of(env, r)
        env.check('exactly the selected samples of signal in every polarisation',
                  env.And([env.eq(x, y) for rr, rs in zip(RS, S) for x, y in zip(rr, sel(rs))]) if len(RS) == pol else False)
        env.check('exactly the selected samples of noise in every polarisation (None iff the operand has none)',
                  (RN is None) if N is None else (RN is not None and env.And([env.eq(x, y) for rr, rs in zip(RN, N) for x, y in zip(rr, sel(rs))])))
        env.check('result shares no memory with the operand',
                  not any(env.shares(x, y) for x in (r.signal, r.noise) if x is not None for y in (a.signal, a.noise) if y is not None))
    env.check('operand unchanged', env.And([env.untouched(arr, sn) for arr, sn in snaps]))


def scen_transform(env, cfg):
    cls, n, pol, noise, vt, dom, shift = (cfg[k] for k in ('cls', 'n', 'pol', 'noise', 'vtype', 'domain', 'shift'))
    a, S, N = mk(env, cls, n, pol, noise, vt, 'a')
    snaps = [(a.signal, env.snap(a.signal)), (a.noise, env.snap(a.noise))]
    r = a(dom, shift)
    env.check('transform result satisfies the contract (class, polarisations, length)', valid(env, r, cls, pol, n))
    env.check('noise present iff present on the operand', (r.noise is not None) == noise)
    env.check('result shares no memory with the operand',
              not any(env.shares(x, y) for x in (r.signal, r.noise) if x is not None for y in (a.signal, a.noise) if y is not None))
    env.check('operand unchanged', env.And([env.untouched(arr, sn) for arr, sn in snaps]))
    try:
        a('x')
        bad = True
    except ValueError:
        bad = False
    env.check('unknown domain rejected', not bad)


def scen_apply(env, cfg):
    cls, n, pol, noise, vt = (cfg[k] for k in ('cls', 'n', 'pol', 'noise', 'vtype'))
    a, S, N = mk(env, cls, n, pol, noise, vt, 'a')
    snaps = [(a.signal, env.snap(a.signal)), (a.noise, env.snap(a.noise))]
    r = a.apply(lambda x, k: x * k, 3)
    env.check('apply result satisfies the contract', valid(env, r, cls, pol, n))
    RS, RN = rows_of(env, r)
    env.check('function applied to signal and noise alike',
              env.And([env.eq(x, y * 3) for rr, rs in zip(RS, S) for x, y in zip(rr, rs)] +
                      ([env.eq(x, y * 3) for rr, rs in zip(RN, N) for x, y in zip(rr, rs)] if N is not None else [RN is None])))
    env.check('operand unchanged', env.And([env.untouched(arr, sn) for arr, sn in snaps]))


def configs(tier):
    q = tier == 'quick'
    out = []
    # constructors
    for cls in ('es', 'os'):
        forms = ['scalar', 'list', 'tuple', 'ndarray'] + (['2d1', '2d2'])
        for form in forms:
            for noise in (False, True):
                for n_pol in ((None,) if cls == 'es' else (None, 1, 2)):
                    for dtype, vt in ((None, 'float'), (None, 'int'), (None, 'complex'), ('float', 'int'), ('complex', 'float')) if not q else \
                            ((None, 'float'), (None, 'complex'), ('complex', 'int')):
                        for n in ((2,) if q else (1, 3)):
                            if form == 'scalar' and n != (2 if q else 1):
                                continue
                            out.append((f'ctor-{cls}-{form}-{"noise" if noise else "clean"}-pol{n_pol}-{dtype}-{vt}-n{n}', scen_ctor,
                                        dict(cls=cls, form=form, n=n, noise=noise, n_pol=n_pol, dtype=dtype, vtype=vt), {}))
    # operators
    lens = (1, 3) if q else (1, 2, 3, 5)
    for cls, pol in (('es', 1), ('os', 1), ('os', 2)):
        for op in ('add', 'sub', 'mul'):
            for refl in (False, True):
                for n in lens:
                    if pol == 2 and n > 3:
                        continue
                    for an in (False, True):
                        kinds = [('obj', True), ('obj', False), ('obj1', True), ('obj1', False), ('objm', False), ('scalar', None),
                                 ('list', None), ('tuple', None), ('ndarray', None), ('str', None)]
                        for okind, bn in kinds:
                            if refl and okind in ('ndarray', 'obj', 'obj1', 'objm'):
                                continue       # ndarray on the left is excluded; object-object is covered by the direct form
                            if q and (okind in ('tuple',) or (okind == 'str' and (op != 'add' or an)) or (n == 1 and okind in ('obj1', 'objm'))):
                                continue
                            if okind in ('obj1',) and n == 1:
                                continue
                            vts = ('float',) if q else ('float', 'complex', 'int')
                            for vt in vts:
                                if vt != 'float' and (okind in ('str', 'tuple', 'objm') or pol == 2 or n > 3):
                                    continue
                                c = dict(cls=cls, n=n, pol=pol, a_noise=an, vtype=vt, op=op, other=okind, reflected=refl,
                                         b_noise=bool(bn), m=n + 1, text=' '.join(['1', '0', '1', '1', '0'][:n]))
                                if okind in ('list',) and not q:
                                    c2 = dict(c, m=n + 2)
                                    out.append((f'op-{cls}{pol}-{op}{"-r" if refl else ""}-n{n}-{"an" if an else "a"}-listm-{vt}', scen_binop, c2, {}))
                                    c = dict(c, m=n)
                                elif okind in ('list', 'tuple', 'ndarray'):
                                    c['m'] = n
                                out.append((f'op-{cls}{pol}-{op}{"-r" if refl else ""}-n{n}-{"an" if an else "a"}-{okind}{"n" if bn else ""}-{vt}',
                                            scen_binop, c, {}))
    # a longer plain container against a shorter object (a length-1 object included), every operator in both orders: must be rejected
    for cls, pol in (('es', 1), ('os', 1), ('os', 2)):
        for op in ('add', 'sub', 'mul'):
            for refl in (False, True):
                for okind in ('list', 'tuple'):
                    for n in (1, 2):
                        for an in ((False,) if q else (False, True)):
                            if q and okind == 'tuple' and (pol == 2 or op == 'mul'):
                                continue
                            out.append((f'op-{cls}{pol}-{op}{"-r" if refl else ""}-n{n}-{"an" if an else "a"}-{okind}-longer', scen_binop,
                                        dict(cls=cls, n=n, pol=pol, a_noise=an, vtype='float', op=op, other=okind, reflected=refl,
                                             b_noise=False, m=n + 2), {}))
    # mixed dtype operands, every noise pattern, both orders of the wider/narrower dtype
    for a_vt, b_vt in (('int', 'float'), ('float', 'complex'), ('int', 'complex'), ('float', 'int'), ('complex', 'float')):
        for an in (False, True):
            for bn in (False, True):
                for op in (('add', 'sub') if q else ('add', 'sub', 'mul')):
                    for okind, n in ((('obj', 2),) if q else (('obj', 2), ('obj1', 3))):
                        out.append((f'op-mixed-{a_vt}-{b_vt}-{op}-{"an" if an else "a"}-{"bn" if bn else "b"}-{okind}', scen_binop,
                                    dict(cls='es', n=n, pol=1, a_noise=an, vtype=a_vt, ovtype=b_vt, op=op, other=okind, reflected=False, b_noise=bn, m=n), {}))
    for cls, pol in (('os', 1), ('os', 2)):
        out.append((f'op-mixed-{cls}{pol}-float-complex', scen_binop, dict(cls=cls, n=2, pol=pol, a_noise=False, vtype='float', ovtype='complex', op='add',
                                                                       other='obj', reflected=False, b_noise=True, m=2), {}))
    # slices
    for cls, pol in (('es', 1), ('os', 1), ('os', 2)):
        for noise in (False, True):
            for n in ((3,) if q else (1, 2, 4)):
                base = dict(cls=cls, n=n, pol=pol, noise=noise, vtype='float')
                tag = f'{cls}{pol}-{"noise" if noise else "clean"}-n{n}'
                out.append((f'slice-{tag}-int', scen_slice, dict(base, form='int'), {}))
                out.append((f'slice-{tag}-copy', scen_slice, dict(base, form='copy'), {}))
                out.append((f'slice-{tag}-copyn', scen_slice, dict(base, form='copyn'), {}))
                for step in ((None, -1, 2) if q else (None, 1, -1, 2, -2, 3)):
                    for st in ('sym', 'none'):
                        for sp in ('sym', 'none'):
                            out.append((f'slice-{tag}-{st}:{sp}:{step}', scen_slice, dict(base, form='slice', start=st, stop=sp, step=step), {}))
                out.append((f'apply-{tag}', scen_apply, dict(base), {}))
    # transforms
    for cls, pol in (('es', 1), ('os', 2)):
        for noise in (False, True):
            for dom in ('w', 'f', 't'):
                for shift in (False, True):
                    for n in ((3,) if q else (1, 2, 3, 4)):
                        out.append((f'tf-{cls}{pol}-{"noise" if noise else "clean"}-{dom}-{shift}-n{n}', scen_transform,
                                    dict(cls=cls, n=n, pol=pol, noise=noise, vtype='complex', domain=dom, shift=shift), {}))
    return out
