"""C08 — nonlinear FIBER conserves energy up to loss; SPM closed form; 1-pol == x-pol of 2-pol (partial claim)."""
ID = 'C08'
FUNCTIONS = [('devices', 'FIBER')]
BOUNDS = {'call-history differential': 'for the blocks of this property registered in vf/history.py (concrete orders / bandwidths / gains / gv configurations, symbolic samples): the call repeated in a session that first ran it with one parameter or one gv setting changed equals the call in a fresh library instance',
          'energy law': 'N = 2 samples per polarisation (two polarisations, or one), symbolic field, alpha >= 0, |beta2| >= 1, beta3, gamma > 0, phi_max > 0, L > 0; '
                        'adaptive loop unrolled while at most 4 fft/ifft calls are made (one full split step + the final partial step; both tiers: 8 calls ran past 40 minutes per configuration, and at 6 the per-step bookkeeping of the harness cannot tell two equal step lengths apart); deeper paths are cut '
                        'and counted; FFT pairs in contract mode (fresh outputs + Parseval, proved against the exact DFT in C02)',
          'SPM closed form': 'N = 2, exact DFT, beta2 = beta3 = 0 (single step), alpha >= 0, one and two polarisations',
          'polarisation equivalence': 'N in {2,3}: (a) dispersion on: the initial step size of the one-polarisation run equals that of the '
                                      'two-polarisation run with empty y (both cut at their first fft call); (b) beta2 = beta3 = 0: outputs equal '
                                      '(single step); full propagations are compared numerically in the validation/replay runs',
          'finite output': 'N = 4, fields whose leading samples or all samples are zero: symbolically the initial step size is well defined (no division by zero before the first fft); the replay/validation runs check the whole output for nan/inf and termination',
          'finite output, weak fields': 'N = 2, |E|^2 from 1e-16 W to 4 W, alpha in [0, 0.5] dB/km, L <= 100 km, gamma in [0.1, 5], symbolic beta2: every exp() '
                                        'argument evaluated before the first fft (the first step) stays within +-700 (range of a double); first step + closing step explored'}
OUTSIDE = ['convergence to the NLSE solution with error O(phi_max): a statement about a limit, no bounded algebraic form',
           'more than 3 full split steps; N > 3', 'the animated variants of FIBER']
ASSUMPTIONS = ['|exp(j*x)| = 1, exp(a)exp(b) = exp(a+b) and r = sqrt(x) => r^2 = x from the axiom table',
               'contract-mode FFT: sum|fft(x)|^2 = N*sum|x|^2 and sum|ifft(X)|^2 = sum|X|^2/N (each proved for the exact DFT in C02)']
LIMITS = {'max_paths': 80, 'query_timeout_ms': 180000}


def _field(env, n, pol, name='E', lo=-2, hi=2):
    T = env.lib.typing
    S = [env.cplxs(f'{name}.s{p}', n, lo, hi) for p in range(pol)]
    if pol == 1:
        return T.optical_signal(list(S[0])), S
    return T.optical_signal([list(r) for r in S]), S


def _setup(env, sps=2):
    T = env.lib.typing
    T.gv(sps=sps, R=env.const('1e10'))


def _energy(env, rows):
    return [sum(env.abs2(v) for v in r) for r in rows]


def scen_energy(env, cfg):
    """E_out = exp(-alpha' L) E_in per polarisation, whatever phi_max (multi-step, contract-mode FFT)."""
    D_ = env.lib.devices
    n, pol = cfg['n'], cfg['pol']
    _setup(env)
    x, S = _field(env, n, pol)
    env.assume(env.re(S[0][0]) >= 0.5)                 # non-zero leading sample (zero fields: see scen_finite)
    if pol == 1:
        env.assume(env.re(S[0][1]) >= 0.5)
    al = env.real('alpha', 0, 0.5)
    b2 = env.real('beta_2', 1, 25) if cfg.get('b2sign', 1) > 0 else env.real('beta_2', -25, -1)     # dispersion on (the beta2 = beta3 = 0 shortcut is scen_spm)
    b3 = env.real('beta_3', -0.2, 0.2)
    g = env.real('gamma', 0.1, 5)
    phi = env.real('phi_max', 5e-4, 10)
    L = env.real('L', 0.1, 100)
    if not env.symbolic:
        env.assume(phi * 3 >= g * sum(_energy(env, S)) * L)         # concrete runs: a handful of steps
    if env.symbolic:
        from vf.core import ctx
        ctx().limits['fft_mode'] = 'contract'
        ctx().limits['max_fft_calls'] = cfg.get('max_fft', 8)
    y = D_.FIBER(x, L, alpha=al, beta_2=b2, beta_3=b3, gamma=g, phi_max=phi)
    ys = env.rows(y.signal)
    env.check('shape and polarisation count preserved', y.signal.shape == x.signal.shape and y.n_pol == pol and y.noise is None)
    if env.symbolic:
        import z3
        from vf import tf
        from vf.core import SB
        ents = tf._entries('exp')
        # cumulative loss factors: exp(a1), exp(a1+a2), ... (creates the intermediate applications so that exp(a)exp(b)=exp(a+b) chains)
        tot_arg, tot, prod = None, None, None
        for e in ents:
            if tot_arg is None:
                tot_arg, tot, prod = e.arg, e.out, e.out
            else:
                tot_arg = tot_arg + e.arg
                tot = env.exp(tot_arg)
                prod = prod * e.out
        if tot_arg is None:
            tot_arg, tot, prod = 0 * L, 1 + 0 * L, 1 + 0 * L
        lo, hi = -al * L / 2 / env.const('4.3425'), -al * L / 2 / env.const('4.3435')
        env.check('the step lengths add up to L: the loss exponents sum to -alpha_dB*L/2 (ln10/10 to within 1.2e-4)',
                  env.And(env.le(tot_arg, hi, 100), env.le(lo, tot_arg, 100)), steps=len(ents))
        env.check('the product of the per-step loss factors is exp of the summed exponents', env.eq(prod, tot, scale=1))
        # per-stage lemmas at the cut points (the fft/ifft calls), then a scalar composition
        ios = [e[1] for e in env.events('fft-io')]
        env.check('each split step is one fft followed by one ifft', len(ios) == 2 * len(ents) and all(io[0] == bool(j % 2) for j, io in enumerate(ios)))
        for p in range(pol):
            hyps, prev_t = [], sum(env.abs2(v) for v in S[p])
            E_in = z3.Real(f'Ein{p}')
            prev_s = E_in
            for j, (inv, ins, outs) in enumerate(ios):
                e_in_t = sum(v.abs2() for v in ins[p])
                e_out_t = sum(v.abs2() for v in outs[p])
                s_in, s_out = z3.Real(f'E{p}_{j}i'), z3.Real(f'E{p}_{j}o')
                if not inv:
                    env.check(f'pol {p}, call {j}: the nonlinear factors have unit modulus (energy entering the fft == energy before)',
                              env.eq(e_in_t, prev_t, scale=10))
                    hyps += [s_in == prev_s, s_out == n * s_in]
                else:
                    ef = ents[j // 2].out
                    env.check(f'pol {p}, call {j}: the linear operator scales every bin by exp(-alpha\'h/2)',
                              env.And([env.eq(a.abs2(), ef * ef * b.abs2(), scale=10) for a, b in zip(ins[p], ios[j - 1][2][p])]))
                    hyps += [s_in == z3.Real(f'e{j // 2}') * z3.Real(f'e{j // 2}') * prev_s, s_out * n == s_in]
                prev_t, prev_s = e_out_t, s_out
            e_fin_t = sum(env.abs2(v) for v in ys[p])
            env.check(f'pol {p}: the last nonlinear factor has unit modulus', env.eq(e_fin_t, prev_t, scale=10))
            # composition over scalars only: stage facts (just proved) + Parseval contracts  =>  E_out = (prod e_i)^2 E_in
            P = z3.RealVal(1)
            for i in range(len(ents)):
                P = P * z3.Real(f'e{i}')
            goal = z3.Implies(z3.And(*hyps), prev_s == P * P * E_in) if hyps else z3.BoolVal(True)
            env.check(f'pol {p}: stage facts compose to E_out = (product of loss factors)^2 * E_in', SB(goal))
        amp2 = tot * tot
    else:
        import math
        amp2 = math.exp(-float(al) * float(L) * math.log(10) / 10)
        if env.impl == 'model':
            amp2 = env.const(repr(amp2))
        ei, eo = float(sum(_energy(env, S))), float(sum(_energy(env, ys)))
        okk = True
        if float(al) * float(L) > 0.05 and ei > 1e-9:
            k = -math.log(eo / ei) / (float(al) * float(L))
            okk = 1 / 4.3435 - 1e-7 <= k <= 1 / 4.3425 + 1e-7
        env.check('the step lengths add up to L: the loss exponents sum to -alpha_dB*L/2 (ln10/10 to within 1.2e-4)', okk)
    if not env.symbolic:
        for p, (eo, ei) in enumerate(zip(_energy(env, ys), _energy(env, S))):
            env.check(f'energy in polarisation {p} = input energy * 10^(-alpha*L/10), whatever phi_max', env.eq(eo, amp2 * ei, scale=1e4))


def scen_spm(env, cfg):
    """dispersion-free propagation reproduces self-phase modulation in closed form."""
    D_ = env.lib.devices
    n, pol, lossy = cfg['n'], cfg['pol'], cfg['lossy']
    _setup(env)
    if cfg.get('realfield'):
        # a real-valued envelope stored as float64 (the container keeps the dtype it is given): the result is complex all the same
        T = env.lib.typing
        S = [env.reals(f'E.s{p}', n, -2, 2) for p in range(pol)]
        x = T.optical_signal(list(S[0])) if pol == 1 else T.optical_signal([list(r) for r in S])
    else:
        x, S = _field(env, n, pol)
    env.assume(env.re(S[0][0]) >= 0.5)
    if pol == 1:
        env.assume(env.re(S[0][1]) >= 0.5)
    g = env.real('gamma', 0.1, 5)
    L = env.real('L', 0.1, 100)
    al = env.real('alpha', 0.01, 0.5) if lossy else 0
    if env.symbolic:
        from vf.core import ctx
        ctx().limits['max_fft_calls'] = 2          # the dispersion-free case is a single step
    y = D_.FIBER(x, L, alpha=al, gamma=g) if lossy else D_.FIBER(x, L, gamma=g)
    ys = env.rows(y.signal)
    if lossy:
        ap = al / env.const('4.343')
        e = env.exp(-ap * L)
        amp = env.exp(-ap * L / 2)
        Leff = (1 - e) / ap
    else:
        amp, Leff = 1, L
    conds = []
    for p in range(pol):
        for k in range(n):
            psi = g * env.abs2(S[p][k]) * Leff
            conds.append(env.eq(ys[p][k], S[p][k] * env.cx(amp * env.cos(psi), amp * env.sin(psi)), scale=10))
    env.check('out = in*exp(-alpha\'L/2)*exp(j*gamma*|in|^2*L_eff), L_eff = (1-exp(-alpha\'L))/alpha\' (L when alpha = 0)', env.And(conds))
    env.check('shape preserved', y.signal.shape == x.signal.shape)


def scen_pol_equiv(env, cfg):
    """a one-polarisation signal propagates like the x-polarisation of a two-polarisation signal with empty y."""
    D_, T = env.lib.devices, env.lib.typing
    n, mode = cfg['n'], cfg['mode']
    _setup(env)
    xs = env.cplxs('E', n, -2, 2)
    env.assume(env.Or([env.abs2(v) >= 0.25 for v in xs]))        # some non-zero sample; the leading ones may vanish
    one = T.optical_signal(list(xs))
    two = T.optical_signal([list(xs), [0 * env.re(xs[0])] * n])
    g = env.real('gamma', 0.1, 5)
    L = env.real('L', 0.1, 100)
    phi = env.real('phi_max', 0.01, 10)
    al = env.real('alpha', 0, 0.5) if cfg.get('lossy') else 0
    b2 = env.real('beta_2', 1, 25) if (mode == 'stepsize' and not cfg.get('beta3_only')) else 0
    b3 = env.real('beta_3', 0.05, 0.2) if cfg.get('beta3_only') else 0
    if not env.symbolic:
        env.assume(phi * (30 if cfg.get('beta3_only') else 3) >= g * sum(env.abs2(v) for v in xs) * L)  # concrete runs: a bounded number of steps
    mk = env.mark()
    if env.symbolic and mode == 'stepsize':
        # dispersion on: only the initial step size is compared symbolically (both runs are cut at their first fft call);
        # the validation / replay runs execute the whole propagation and compare the outputs
        from vf.core import ctx, PathAbort, R
        dens = []
        bad = False
        for sig in (one, two):
            ctx().limits['max_fft_calls'] = 1
            ctx().fft_calls = 1
            k0 = len(env.events('div'))
            try:
                D_.FIBER(sig, L, alpha=al, beta_2=b2, beta_3=b3, gamma=g, phi_max=phi)
            except PathAbort:
                pass
            except (env.NonFinite, ZeroDivisionError):
                bad = True
            dens.append([e[1] for e in env.events('div')][k0:])
        ctx().limits.pop('max_fft_calls')
        env.check_defined('FIBER returns a finite field (no division by a zero power), leading zero samples included',
                          None if bad else [], since=mk)
        if bad:
            return
        import z3
        from vf.core import SB
        nl_t = g * sum(env.abs2(v) for v in xs) * L
        steer = z3.And((nl_t >= phi * 8).t, (nl_t <= phi * 25).t, (env.abs2(xs[0]) >= 1).t)      # replay steering: several steps expected
        env.check('with dispersion (beta2 or beta3) and nonlinearity both present the step size is taken from phi_max/(gamma*peak power)',
                  SB(z3.BoolVal(len(dens[0]) >= 1 and len(dens[1]) >= 1), None, steer))
        env.check('the one-polarisation run uses the same step sizes as the two-polarisation run',
                  len(dens[0]) == len(dens[1]) >= 1 and env.And([env.eq(R(u), R(v), scale=10) for u, v in zip(*dens)]))
        return
    if env.symbolic:
        from vf.core import ctx
        ctx().limits['max_fft_calls'] = 4
    try:
        a = D_.FIBER(one, L, alpha=al, beta_2=b2, beta_3=b3, gamma=g, phi_max=phi)
        b = D_.FIBER(two, L, alpha=al, beta_2=b2, beta_3=b3, gamma=g, phi_max=phi)
        outs = [a.signal, b.signal]
    except (env.NonFinite, ZeroDivisionError):
        outs = None
    env.check_defined('FIBER returns a finite field (no division by a zero power), leading zero samples included', outs, since=mk,
                      until_event='fft')
    if outs is None:
        return
    if mode == 'stepsize':
        # concrete runs: the output must depend on phi_max when the nonlinear phase per length is large (a single full-length step would not)
        import math
        nl = float(g) * float(sum(env.abs2(v) for v in xs)) * float(L)
        c1 = D_.FIBER(one, L, alpha=al, beta_2=b2, beta_3=b3, gamma=g, phi_max=phi * 3)
        diff = max(abs(complex(env.re(u), env.im(u)) - complex(env.re(v), env.im(v))) for u, v in zip(env.items(a.signal), env.items(c1.signal)))
        env.check('with dispersion (beta2 or beta3) and nonlinearity both present the step size is taken from phi_max/(gamma*peak power)',
                  nl < 6 * float(phi) or diff > 1e-9)
    env.check('the one-polarisation run uses the same step sizes as the two-polarisation run',
              env.eqs(a.signal, env.rows(b.signal)[0], scale=10))
    env.check('FIBER(1-pol x).signal == FIBER([x, 0]).signal[0]', env.eqs(a.signal, env.rows(b.signal)[0], scale=10))
    env.check('the empty polarisation stays empty', env.eqs(env.rows(b.signal)[1], [0] * n, scale=10))


def scen_finite(env, cfg):
    """inputs whose first samples (or all samples) are zero still give a finite output of the input's shape."""
    D_, T = env.lib.devices, env.lib.typing
    _setup(env)
    kind, pol = cfg['kind'], cfg['pol']
    v = env.cplx('v', -2, 2)
    env.assume(env.abs2(v) >= 0.25)
    z = 0 * env.re(v)
    row = {'lead0': [z, z, v, v], 'all0': [z, z, z, z], 'one0': [z, v, v, v]}[kind]
    x = T.optical_signal(list(row)) if pol == 1 else T.optical_signal([list(row), [z] * 4])
    g = env.real('gamma', 0.1, 5)
    L = env.real('L', 0.1, 100)
    b2 = env.real('beta_2', -25, 25)
    if env.symbolic:
        from vf.core import ctx
        ctx().limits['max_fft_calls'] = 2
    mk = env.mark()
    try:
        y = D_.FIBER(x, L, beta_2=b2, gamma=g, phi_max=env.const('10'))
        outs = [y.signal]
        shape_ok = y.signal.shape == x.signal.shape
    except (env.NonFinite, ZeroDivisionError):
        outs, shape_ok = None, False
    env.check_defined('FIBER returns a finite field of the input\'s shape for inputs whose first samples are zero', outs, since=mk,
                      until_event='fft')


def scen_finite_weak(env, cfg):
    """weak fields in a lossy, dispersive, nonlinear fibre: the output must be finite.  Real arithmetic cannot overflow, so the
    float-range part of "finite" is carried by the definedness side conditions of exp (argument within the range of a double):
    they must follow from the path condition for every field amplitude, loss and length."""
    D_, T = env.lib.devices, env.lib.typing
    _setup(env)
    pol = cfg['pol']
    v = env.cplx('v', -2, 2)
    env.assume(env.abs2(v) >= env.const('1e-16'))          # down to 1e-16 W: far weaker than any received signal
    row = [v, v]
    z = 0 * env.re(v)
    x = T.optical_signal(list(row)) if pol == 1 else T.optical_signal([list(row), [z] * 2])
    g = env.real('gamma', 0.1, 5)
    L = env.real('L', 0.1, 100)
    al = env.real('alpha', 0, 0.5)
    b2 = env.real('beta_2', -25, 25)
    if env.symbolic:
        from vf.core import ctx
        ctx().limits['max_fft_calls'] = 4          # a first step and the closing step: the run in which the first step overshoots the fibre
    mk = env.mark()
    try:
        y = D_.FIBER(x, L, alpha=al, beta_2=b2, gamma=g)
        outs = [y.signal]
    except (env.NonFinite, ZeroDivisionError):
        outs = None
    steer = [(env.abs2(v) <= env.const('1e-9')).t, (al >= env.const('0.2')).t, (g <= 2).t] if env.symbolic else None
    env.check_defined('FIBER returns a finite field for weak inputs in a lossy fibre (no exp() leaves the range of a double)', outs, since=mk,
                      until_event='fft', steer=steer)


def scen_noise(env, cfg):
    D_, T = env.lib.devices, env.lib.typing
    _setup(env)
    S = env.cplxs('E', 2, -2, 2)
    env.assume(env.And(env.re(S[0]) >= 0.5, env.re(S[1]) >= 0.5))
    N = env.cplxs('n', 2, -1, 1)
    x = T.optical_signal(list(S), list(N))
    sn = env.snap(x.noise)
    y = D_.FIBER(x, env.real('L', 0.1, 100), gamma=env.real('gamma', 0.1, 5))
    env.check('the noise component is passed through unchanged (documented behaviour) and not aliased', env.And(
        y.noise is not None and env.eqs(y.noise, N), env.untouched(x.noise, sn)))
    try:
        D_.FIBER(env.arr([1.0, 2.0]), 1.0)
        ok = True
    except TypeError:
        ok = False
    env.check('non-optical input raises TypeError', not ok)


def configs(tier):
    q = tier == 'quick'
    out = []
    for pol in (2, 1):
        for sg in ((1,) if q else (1, -1)):
            out.append((f'energy-n2-pol{pol}-b2{"+" if sg > 0 else "-"}', scen_energy, dict(n=2, pol=pol, max_fft=4, b2sign=sg),
                        {'validate': 2, 'limits': {'feas_timeout_ms': 1000},
                         'expect_reach': [f'pol {pol - 1}: stage facts compose to E_out = (product of loss factors)^2 * E_in']}))
    for pol in (1, 2):
        for lossy in (False, True):
            out.append((f'spm-n2-pol{pol}-{"lossy" if lossy else "lossless"}', scen_spm, dict(n=2, pol=pol, lossy=lossy), {}))
        out.append((f'spm-n2-pol{pol}-lossless-real-envelope', scen_spm, dict(n=2, pol=pol, lossy=False, realfield=True), {}))
    for pol in (1, 2):
        out.append((f'finite-weak-lossy-pol{pol}', scen_finite_weak, dict(pol=pol), {'validate': 2, 'limits': {'feas_timeout_ms': 1000}}))
    for n in ((2,) if q else (2, 3)):
        out.append((f'pol-equivalence-stepsize-n{n}', scen_pol_equiv, dict(n=n, mode='stepsize'), {'validate': 2, 'limits': {'feas_timeout_ms': 1000},
                    'expect_reach': ['the one-polarisation run uses the same step sizes as the two-polarisation run']}))
        out.append((f'pol-equivalence-stepsize-beta3-n{n}', scen_pol_equiv, dict(n=n, mode='stepsize', beta3_only=True), {'validate': 2, 'limits': {'feas_timeout_ms': 1000},
                    'expect_reach': ['the one-polarisation run uses the same step sizes as the two-polarisation run']}))
        out.append((f'pol-equivalence-spm-n{n}', scen_pol_equiv, dict(n=n, mode='spm'), {'validate': 2, 'limits': {'feas_timeout_ms': 1000},
                    'expect_reach': ['FIBER(1-pol x).signal == FIBER([x, 0]).signal[0]']}))
    for kind in ('lead0', 'all0', 'one0'):
        for pol in (1, 2):
            out.append((f'finite-{kind}-pol{pol}', scen_finite, dict(kind=kind, pol=pol), {'validate': 1, 'limits': {'feas_timeout_ms': 1000}}))
    out.append(('noise-passthrough', scen_noise, {}, {}))
    from vf import history as _history        # call-history differential of this property's blocks (vf/history.py)
    out += _history.configs_for('C08')
    return out
