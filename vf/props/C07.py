"""C07 — linear propagation (DM, FIBER with gamma = 0) is an exact all-pass, additive in length."""
ID = 'C07'
FUNCTIONS = [('devices', 'DM'), ('devices', 'FIBER'), ('typing', 'electrical_signal.__call__'), ('typing', 'electrical_signal.w'),
             ('typing', 'electrical_signal.__mul__')]
BOUNDS = {'call-history differential': 'for the blocks of this property registered in vf/history.py (concrete orders / bandwidths / gains / gv configurations, symbolic samples): the call repeated in a session that first ran it with one parameter or one gv setting changed equals the call in a fresh library instance',
          'lengths': 'N in {2,3,4} (quick) / {2,3,4,5,6,8} (thorough), exact DFT; one and two polarisations',
          'lengths beyond the exact DFT': 'DM energy conservation and layout at N in {13, 16} (thorough: 13, 16, 17, 26, 32, 64): FFT pair in contract mode '
                                         '(fresh outputs + Parseval, each proved for the exact DFT in C02), per-bin unit-modulus lemma, scalar composition',
          'values': 'every complex field sample, D, D1, D2, beta_2, beta_3 (either sign), alpha >= 0, L, L1, L2 > 0 and the slot rate R symbolic'}
OUTSIDE = ['other lengths (for the sample-exact clauses; the energy clause of DM is decided at larger N in contract mode)', 'FIBER has no retH option (the retH clause applies to DM)', 'floating-point rounding',
           'the noise component: DM and FIBER pass input.noise through without filtering it (the property speaks of the field)']
ASSUMPTIONS = ['cos/sin/exp axioms: Pythagoras, evenness/oddness, angle addition and exp(a)exp(b)=exp(a+b) for the arguments that occur',
               'power law: the library converts dB/km to 1/km with the constant 4.343; the check requires the exponent to lie within '
               '[-alpha*L/4.3425, -alpha*L/4.3435] (i.e. within 1.2e-4 of ln(10)/10) instead of exact equality with 10^(-alpha*L/10)']
LIMITS = {'max_paths': 60, 'query_timeout_ms': 180000}


def _field(env, n, pol, name='E'):
    T = env.lib.typing
    S = [env.cplxs(f'{name}.s{p}', n, -3, 3) for p in range(pol)]
    if pol == 1:
        return T.optical_signal(list(S[0])), S
    return T.optical_signal([list(r) for r in S]), S


def _setup(env, sps=2, N=None):
    T = env.lib.typing
    Rr = env.real('R', 1e9, 1e11)
    if N:
        T.gv(sps=sps, R=Rr, N=N)         # a slot count in force: gv holds its own t / w grids of N*sps points
    else:
        T.gv(sps=sps, R=Rr)
    return Rr * sps


def _energy(env, rows):
    return [sum(env.abs2(v) for v in r) for r in rows]


def _wk(env, n, fs):
    freqs = [(i if i < (n + 1) // 2 else i - n) for i in range(n)]
    return [2 * env.pi() * k / n * fs for k in freqs]


def _apply(env, rows, H):
    """ifft(fft(x) * H) with the harness's own DFT."""
    from vf.props.C02 import my_dft
    out = []
    for r in rows:
        X = my_dft(env, r)
        out.append(my_dft(env, [a * h for a, h in zip(X, H)], inverse=True))
    return out


def scen_dm(env, cfg):
    D_ = env.lib.devices
    n, pol = cfg['n'], cfg['pol']
    fs = _setup(env, cfg.get('sps', 2), cfg.get('N'))
    x, S = _field(env, n, pol)
    snap = env.snap(x.signal)
    D = env.real('D', -200, 200)
    y, Hret = D_.DM(x, D, retH=True)
    w = _wk(env, n, fs)
    H = []
    for wk in w:
        a = -(wk * wk) * (D * env.const('1e-24')) / 2
        H.append(env.cx(env.cos(a), env.sin(a)))
    exp = _apply(env, S, H)
    ys = env.rows(y.signal)
    env.check('DM(x, D) == ifft(fft(x) * exp(-j*w^2*D/2)) in every polarisation', env.And([env.eq(a, b, scale=30) for ra, rb in zip(ys, exp) for a, b in zip(ra, rb)]))
    env.check('length and polarisation layout preserved', y.signal.shape == x.signal.shape and y.n_pol == pol)
    for p, (eo, ei) in enumerate(zip(_energy(env, ys), _energy(env, S))):
        env.check(f'DM conserves energy exactly (polarisation {p})', env.eq(eo, ei, scale=300))
    h = (n + 1) // 2
    Hs = H[h:] + H[:h]
    env.check('retH returns the (fftshift-ed) frequency response of the filter actually applied', env.eqs(Hret, Hs, scale=1))
    env.check('input untouched', env.untouched(x.signal, snap))
    try:
        D_.DM(env.arr([1.0, 2.0]), D)
        ok = True
    except TypeError:
        ok = False
    env.check('non-optical input raises TypeError', not ok)


def scen_dm_energy(env, cfg):
    """DM conserves energy at record lengths beyond the exact-DFT bound (any N: 13, 16, 26, ...).  The FFT pair runs in contract mode
    (fresh outputs carrying Parseval only, proved for the exact DFT in C02); the per-bin lemma |X_k*H_k|^2 = |X_k|^2 is decided for
    every bin, then a composition over scalars gives E_out = E_in."""
    D_ = env.lib.devices
    n, pol = cfg['n'], cfg['pol']
    fs = _setup(env)
    x, S = _field(env, n, pol)
    D = env.real('D', -200, 200)
    if env.symbolic:
        from vf.core import ctx
        ctx().limits['fft_mode'] = 'contract'
    y = D_.DM(x, D)
    ys = env.rows(y.signal)
    env.check('length and polarisation layout preserved', y.signal.shape == x.signal.shape and y.n_pol == pol)
    if not env.symbolic:
        for p, (eo, ei) in enumerate(zip(_energy(env, ys), _energy(env, S))):
            env.check(f'DM conserves energy exactly (polarisation {p})', env.eq(eo, ei, scale=300 * n))
        return
    import z3
    from vf.core import SB
    ios = [e[1] for e in env.events('fft-io')]
    ok = (len(ios) == 2 and not ios[0][0] and ios[1][0] and len(ios[0][1]) == pol and len(ios[1][1]) == pol and
          all(len(r) == n for r in ios[0][1]) and all(len(r) == n for r in ios[1][1]))
    if not ok:
        # some other transform structure (padding, cropping, extra passes): no lemma chain applies; the energy clause is posted as it
        # stands over the contract facts, steered (replay only) to a wide-band, strongly dispersive corner with energy in the field
        Rr = fs / 2
        steer = [(Rr >= 9e10).t, z3.Or((D >= 150).t, (D <= -150).t)] + [(env.re(S[0][k]) >= 1).t for k in range(min(n, 4))]
        for p, (eo, ei) in enumerate(zip(_energy(env, ys), _energy(env, S))):
            cnd = env.eq(eo, ei, scale=300 * n)
            if isinstance(cnd, SB):
                cnd = SB(cnd.t, cnd.rt, z3.And(z3.Not(cnd.t), *steer))
            env.check(f'DM conserves energy exactly (polarisation {p})', cnd)
        return
    fin, fout, iin, iout = ios[0][1], ios[0][2], ios[1][1], ios[1][2]
    for p in range(pol):
        env.check(f'pol {p}: the forward transform is taken of the input field itself', env.And([env.eq(a, b, scale=10) for a, b in zip(fin[p], S[p])]))
        env.check(f'pol {p}: every bin is multiplied by a unit-modulus factor, |X_k*H_k|^2 == |X_k|^2',
                  env.And([env.eq(env.abs2(a), env.abs2(b), scale=100) for a, b in zip(iin[p], fout[p])]))
        env.check(f'pol {p}: the output is the inverse transform, sample for sample', env.And([env.eq(a, b, scale=10) for a, b in zip(ys[p], iout[p])]))
        Ein, EX, EY, Eout = (z3.Real(f'{nm}{p}') for nm in ('Ein', 'EX', 'EY', 'Eout'))
        hyp = z3.And(EX == n * Ein, EY == EX, Eout * n == EY)          # Parseval in, unit-modulus bins, Parseval out
        env.check(f'DM conserves energy exactly (polarisation {p})', SB(z3.Implies(hyp, Eout == Ein)))


def scen_dm_compose(env, cfg):
    D_ = env.lib.devices
    n, pol = cfg['n'], cfg['pol']
    fs = _setup(env)
    x, S = _field(env, n, pol)
    D1 = env.real('D1', -200, 200)
    D2 = env.real('D2', -200, 200)
    a = D_.DM(x, D2)
    b = D_.DM(a, D1)
    one = D_.DM(x, D1 + D2)
    env.check('DM(D1) after DM(D2) == DM(D1+D2)', env.eqs(b.signal, env.items(one.signal), scale=30))
    back = D_.DM(D_.DM(x, D1), -D1)
    env.check('DM(-D) undoes DM(D)', env.And([env.eq(u, v, scale=30) for r, s in zip(env.rows(back.signal), S) for u, v in zip(r, s)]))


def scen_fiber_dm(env, cfg):
    D_ = env.lib.devices
    n, pol = cfg['n'], cfg['pol']
    fs = _setup(env, cfg.get('sps', 2), cfg.get('N'))
    x, S = _field(env, n, pol)
    b2 = env.real('beta_2', -25, 25)
    L = env.real('L', 0.1, 100)
    f = D_.FIBER(x, L, beta_2=b2)
    d = D_.DM(x, b2 * L)
    env.check('FIBER(L, beta2) == DM(beta2*L)', env.eqs(f.signal, env.items(d.signal), scale=30))
    env.check('length and polarisation layout preserved', f.signal.shape == x.signal.shape and f.n_pol == pol)


def scen_fiber_filter(env, cfg):
    """FIBER(gamma=0) is the filter exp(-alpha'L/2 - j beta2 L w^2/2 - j beta3 L w^3/6); power law; span additivity."""
    D_ = env.lib.devices
    n, pol = cfg['n'], cfg['pol']
    fs = _setup(env)
    x, S = _field(env, n, pol)
    env.assume(env.re(S[0][0]) >= 1)        # a non-zero field (the power law is vacuous for the zero field)
    snap = env.snap(x.signal)
    al = env.real('alpha', 0, 0.5)
    b2 = env.real('beta_2', -25, 25)
    b3 = env.real('beta_3', -0.2, 0.2)
    L1 = env.real('L1', 0.1, 100)
    L2 = env.real('L2', 0.1, 100)
    y = D_.FIBER(x, L1, alpha=al, beta_2=b2, beta_3=b3)
    ys = env.rows(y.signal)
    w = [wk * env.const('1e-12') for wk in _wk(env, n, fs)]
    if env.symbolic:
        from vf import tf
        ents = tf._entries('exp')
        env.check('one loss factor exp(-alpha\'*L/2) is applied (single full-length step, no second partial step)', len(ents) == 1)
        if len(ents) != 1:
            return
        amp, arg = ents[0].out, ents[0].arg
        lo, hi = -al * L1 / 2 / env.const('4.3425'), -al * L1 / 2 / env.const('4.3435')
        env.check('the loss exponent is -alpha_dB*L/2 converted with ln(10)/10 to within 1.2e-4', env.And(env.le(arg, hi, 100), env.le(lo, arg, 100)))
    else:
        import math
        amp = env.const(repr(math.exp(-float(al) * float(L1) / 2 * math.log(10) / 10)))
        ei, eo = float(sum(_energy(env, S))), float(sum(_energy(env, ys)))
        okk = True
        if float(al) * float(L1) > 0.05 and ei > 1e-9:
            k = -math.log(eo / ei) / (float(al) * float(L1))
            okk = 1 / 4.3435 - 1e-9 <= k <= 1 / 4.3425 + 1e-9
        env.check('one loss factor exp(-alpha\'*L/2) is applied (single full-length step, no second partial step)', True)
        env.check('the loss exponent is -alpha_dB*L/2 converted with ln(10)/10 to within 1.2e-4', okk)
    H = []
    for wk in w:
        ph = -(b2 * wk * wk / 2 + b3 * wk * wk * wk / 6) * L1
        H.append(env.cx(amp * env.cos(ph), amp * env.sin(ph)))
    exp = _apply(env, S, H)
    cnd = env.And([env.eq(a, b, scale=3 if env.symbolic else 3000) for ra, rb in zip(ys, exp) for a, b in zip(ra, rb)])
    if env.symbolic:
        import z3
        from vf.core import SB
        # replay steering only: a corner where the dispersive phases are visible in doubles (wide band, long span, sizeable beta3,
        # energy outside the DC bin); it affects which counterexample is replayed, never the verdict
        Rr = fs / 2
        steer = [(Rr >= 9e10).t, (L1 >= 80).t, z3.Or((b3 >= env.const('0.15')).t, (b3 <= env.const('-0.15')).t),
                 z3.Or((b2 >= 5).t, (b2 <= -5).t, (b2 == 0).t)] + ([(env.re(S[0][1]) >= 1).t] if n >= 2 else [])
        if isinstance(cnd, SB):
            cnd = SB(cnd.t, cnd.rt, z3.And(z3.Not(cnd.t), *steer))
    env.check('FIBER == ifft(fft(x) * exp(-alpha\'L/2 - j*beta2*L*w^2/2 - j*beta3*L*w^3/6)) in every polarisation', cnd)
    for p, (eo, ei) in enumerate(zip(_energy(env, ys), _energy(env, S))):
        env.check(f'power leaving the fibre = input power * 10^(-alpha*L/10) (polarisation {p})',
                  env.eq(eo, amp * amp * ei, scale=30 if env.symbolic else 30000))
    env.check('input untouched; layout preserved', env.And(env.untouched(x.signal, snap), y.signal.shape == x.signal.shape and y.n_pol == pol))
    if cfg.get('spans'):
        two = D_.FIBER(y, L2, alpha=al, beta_2=b2, beta_3=b3)
        one = D_.FIBER(x, L1 + L2, alpha=al, beta_2=b2, beta_3=b3)
        env.check('two spans in sequence == one span of the summed length', env.eqs(two.signal, env.items(one.signal), scale=30))


def configs(tier):
    q = tier == 'quick'
    out = []
    for n in ((2, 3, 4) if q else (2, 3, 4, 5, 6, 8)):
        for pol in (1, 2):
            if pol == 2 and n > (3 if q else 5):
                continue
            out.append((f'dm-n{n}-pol{pol}', scen_dm, dict(n=n, pol=pol), {}))
            if n <= 4:
                out.append((f'dm-compose-n{n}-pol{pol}', scen_dm_compose, dict(n=n, pol=pol), {}))
            out.append((f'fiber-vs-dm-n{n}-pol{pol}', scen_fiber_dm, dict(n=n, pol=pol), {}))
            if n != 5:       # the power clause over the degree-4 twiddle field of N = 5 exceeds the query budget (unknown after 180 s)
                out.append((f'fiber-filter-n{n}-pol{pol}', scen_fiber_filter, dict(n=n, pol=pol, spans=(n <= 3 and pol == 1)), {}))
    # the field's own frequency axis while gv holds a grid of the same length (odd and even) or of another length
    for n, sps, N in (((3, 3, 1), (4, 2, 2), (3, 2, 2)) if q else ((3, 3, 1), (4, 2, 2), (3, 2, 2), (5, 5, 1), (6, 3, 2), (2, 2, 1))):
        out.append((f'dm-n{n}-pol1-gv-sps{sps}-N{N}', scen_dm, dict(n=n, pol=1, sps=sps, N=N), {}))
        out.append((f'fiber-vs-dm-n{n}-pol1-gv-sps{sps}-N{N}', scen_fiber_dm, dict(n=n, pol=1, sps=sps, N=N), {}))
    # record lengths beyond the exact-DFT bound (one with a prime factor >= 13, one power of two, one composite): contract-mode FFT
    for n, pol in (((13, 1), (16, 2)) if q else ((13, 1), (13, 2), (16, 2), (17, 1), (26, 1), (32, 1), (64, 1))):
        out.append((f'dm-energy-contract-n{n}-pol{pol}', scen_dm_energy, dict(n=n, pol=pol), {'validate': 1}))
    from vf import history as _history        # call-history differential of this property's blocks (vf/history.py)
    out += _history.configs_for('C07')
    return out
