"""C06 — MZM obeys its passive transfer function; PM/laser phase terms are pure rotations."""
ID = 'C06'
FUNCTIONS = [('devices', 'MZM'), ('devices', 'PM'), ('devices', 'LASER'), ('utils', 'idb'), ('utils', 'idbm'),
             ('typing', 'optical_signal.__getitem__')]
BOUNDS = {'call-history differential': 'for the blocks of this property registered in vf/history.py (concrete orders / bandwidths / gains / gv configurations, symbolic samples): the call repeated in a session that first ran it with one parameter or one gv setting changed equals the call in a fresh library instance',
          'fields': 'N <= 2 (quick) / 3 (thorough) symbolic complex samples, one and two polarisations, with and without noise',
          'parameters': 'drive, bias, Vpi > 0, loss_dB >= 0, ER_dB in [0, 60], laser power/linewidth/offset: all symbolic reals',
          'laser spectrum': 'N = 4 samples on the sampling grid, df in {-fs/4, 0, fs/4} (exact quarter-turn angles)'}
OUTSIDE = ['N above the bound (element-wise code)', 'off-grid laser offsets for the spectral-peak clause', 'LASER with RIN (not a pure rotation)',
           'the BW option of MZM (delegates to BPF, see C11)']
ASSUMPTIONS = ['cos/sin/10**x/sqrt are characterised by the axiom table (Pythagoras, quarter-turn shifts, angle addition for arguments that '
               'occur, inverse/homomorphism of 10**x, r>=0 & r^2=x for sqrt)']
LIMITS = {'max_paths': 400, 'query_timeout_ms': 120000}


def _field(env, n, pol, noise, name='E'):
    T = env.lib.typing
    S = [env.cplxs(f'{name}.s{p}', n, -3, 3) for p in range(pol)]
    N = [env.cplxs(f'{name}.n{p}', n, -3, 3) for p in range(pol)] if noise else None
    if pol == 1:
        x = T.optical_signal(list(S[0]), list(N[0]) if noise else None)
    else:
        x = T.optical_signal([list(r) for r in S], [list(r) for r in N] if noise else None)
    return x, S, N


def _drive(env, kind, us):
    T = env.lib.typing
    if kind == 'scalar':
        return us[0]
    if kind == 'list':
        return list(us)
    if kind == 'ndarray':
        return env.arr(list(us))
    if kind == 'es':
        return T.electrical_signal(list(us))
    raise KeyError(kind)


def _params(env):
    bias = env.real('bias', -10, 10)
    Vpi = env.real('Vpi', 0.5, 10)
    loss = env.real('loss_dB', 0, 20)
    ER = env.real('ER_dB', 0, 60)
    return bias, Vpi, loss, ER


def _h(env, u, bias, Vpi, loss, ER):
    """closed-form transfer sqrt(loss)*[cos(theta) + j*10^(-ER/20)*sin(theta)], theta = pi*(u+bias)/(2*Vpi)."""
    th = env.pi() * (u + bias) / (2 * Vpi)
    c, s = env.cos(th), env.sin(th)
    sl = env.sqrt(env.pow10(-loss / 10))
    eps = env.sqrt(env.pow10(-ER / 10))       # 10^(-ER/20)
    return env.cx(sl * c, sl * eps * s), sl, eps


def scen_mzm(env, cfg):
    D = env.lib.devices
    n, pol, noise, dk, sel = cfg['n'], cfg['pol'], cfg['noise'], cfg['drive'], cfg['sel']
    x, S, N = _field(env, n, pol, noise)
    snaps = [(x.signal, env.snap(x.signal)), (x.noise, env.snap(x.noise))]
    bias, Vpi, loss, ER = _params(env)
    m = 1 if dk == 'scalar' or cfg.get('short') else n
    us = env.reals('u', m, -20, 20)
    y = D.MZM(x, _drive(env, dk, us), bias=bias, Vpi=Vpi, loss_dB=loss, ER_dB=ER, pol=sel)
    ub = [us[k] if m == n else us[0] for k in range(n)]
    hs = [_h(env, ub[k], bias, Vpi, loss, ER) for k in range(n)]
    keep = 0 if sel == 'x' else 1
    ys, yn = env.rows(y.signal), (env.rows(y.noise) if y.noise is not None else None)
    env.check('output keeps the layout of the input; noise present iff present on the input',
              y.signal.shape == x.signal.shape and y.n_pol == pol and (y.noise is not None) == noise)
    conds, nconds, pas, ext = [], [], [], []
    for p in range(pol):
        for k in range(n):
            h, sl, eps = hs[k]
            if pol == 2 and p != keep:
                ext.append(env.eq(ys[p][k], 0))
                if noise:
                    ext.append(env.eq(yn[p][k], 0))
                continue
            conds.append(env.eq(ys[p][k], S[p][k] * h, scale=100))
            if noise:
                nconds.append(env.eq(yn[p][k], N[p][k] * h, scale=100))
            tin = S[p][k] + N[p][k] if noise else S[p][k]
            tout = ys[p][k] + yn[p][k] if noise else ys[p][k]
            pas.append(env.le(env.abs2(tout), sl * sl * env.abs2(tin), scale=100))
    env.check('signal is multiplied sample-by-sample by sqrt(loss)*[cos(theta) + j*10^(-ER/20)*sin(theta)]', env.And(conds))
    if noise:
        env.check('accompanying noise is modulated exactly like the signal', env.And(nconds))
    env.check('never amplifies: |out|^2 <= loss*|in|^2 on the total field at every sample', env.And(pas))
    if pol == 2:
        env.check('the unselected polarisation is extinguished in signal and noise', env.And(ext))
    env.check('input untouched, output not aliased',
              env.And([env.untouched(a, s) for a, s in snaps] + [not env.shares(y.signal, x.signal)]))


def scen_mzm_ratio(env, cfg):
    """on/off power ratio equals ER_dB; output power is 2*Vpi-periodic in the drive."""
    D = env.lib.devices
    x, S, N = _field(env, 1, 1, False)
    bias, Vpi, loss, ER = _params(env)
    u = env.real('u', -20, 20)
    on = D.MZM(x, -bias, bias=bias, Vpi=Vpi, loss_dB=loss, ER_dB=ER)
    off = D.MZM(x, Vpi - bias, bias=bias, Vpi=Vpi, loss_dB=loss, ER_dB=ER)
    p_on, p_off = env.abs2(env.items(on.signal)[0]), env.abs2(env.items(off.signal)[0])
    pin = env.abs2(S[0][0])
    er = env.pow10(ER / 10)
    env.check('on-state (theta = 0) transmits loss*|in|^2', env.eq(p_on, env.pow10(-loss / 10) * pin, scale=10))
    env.check('on/off power ratio equals 10^(ER_dB/10)', env.eq(p_on, er * p_off, scale=10))
    a = D.MZM(x, u, bias=bias, Vpi=Vpi, loss_dB=loss, ER_dB=ER)
    b = D.MZM(x, u + 2 * Vpi, bias=bias, Vpi=Vpi, loss_dB=loss, ER_dB=ER)
    c = D.MZM(x, u - 2 * Vpi, bias=bias, Vpi=Vpi, loss_dB=loss, ER_dB=ER)
    pa = env.abs2(env.items(a.signal)[0])
    env.check('output power is 2*Vpi-periodic in the drive',
              env.And(env.eq(pa, env.abs2(env.items(b.signal)[0]), scale=10), env.eq(pa, env.abs2(env.items(c.signal)[0]), scale=10)))


def scen_mzm_forms(env, cfg):
    D = env.lib.devices
    n = cfg['n']
    x, S, N = _field(env, n, cfg['pol'], True)
    bias, Vpi, loss, ER = _params(env)
    us = env.reals('u', n, -20, 20)
    ref = D.MZM(x, _drive(env, 'list', us), bias=bias, Vpi=Vpi, loss_dB=loss, ER_dB=ER)
    for dk in ('ndarray', 'es', 'tuple'):
        arg = tuple(us) if dk == 'tuple' else _drive(env, dk, us)
        y = D.MZM(x, arg, bias=bias, Vpi=Vpi, loss_dB=loss, ER_dB=ER)
        env.check(f'{dk} drive gives the same result as a list drive',
                  env.And(env.eqs(y.signal, env.items(ref.signal), scale=100), env.eqs(y.noise, env.items(ref.noise), scale=100)))
    for m in (n + 1, n + 2):
        try:
            D.MZM(x, list(env.reals(f'v{m}', m, -1, 1)), bias=bias, Vpi=Vpi)
            ok = True
        except ValueError:
            ok = False
        env.check(f'drive of length {m} != {n} raises ValueError', not ok)
    for bad in (env.arr(list(us)), list(us), 1.5):
        try:
            D.MZM(bad, us[0])
            ok = True
        except TypeError:
            ok = False
        env.check('non-optical input raises TypeError', not ok)
    try:
        D.MZM(x, us[0], pol='z')
        ok = True
    except ValueError:
        ok = False
    env.check("pol outside {'x','y'} raises ValueError", not ok)


def scen_pm(env, cfg):
    D = env.lib.devices
    n, pol, noise, dk = cfg['n'], cfg['pol'], cfg['noise'], cfg['drive']
    x, S, N = _field(env, n, pol, noise)
    snaps = [(x.signal, env.snap(x.signal)), (x.noise, env.snap(x.noise))]
    Vpi = env.real('Vpi', 0.5, 10)
    m = 1 if dk == 'scalar' else n
    us = env.reals('u', m, -20, 20)
    drive = _drive(env, dk, us)
    dsnap = [(a, env.snap(a)) for a in ([drive] if dk == 'ndarray' else [drive.signal] if dk == 'es' else [])]
    y = D.PM(x, drive, Vpi=Vpi)
    ub = [us[k] if m == n else us[0] for k in range(n)]
    env.check('layout preserved; noise present on the output iff present on the input',
              y.signal.shape == x.signal.shape and y.n_pol == pol and (y.noise is not None) == noise)
    if (y.noise is not None) != noise:
        return
    ys, yn = env.rows(y.signal), (env.rows(y.noise) if noise else None)
    rot, pw = [], []
    for p in range(pol):
        for k in range(n):
            ph = env.pi() * ub[k] / Vpi
            e = env.cx(env.cos(ph), env.sin(ph))
            rot.append(env.eq(ys[p][k], S[p][k] * e, scale=100))
            if noise:
                rot.append(env.eq(yn[p][k], N[p][k] * e, scale=100))
            tin = S[p][k] + N[p][k] if noise else S[p][k]
            tout = ys[p][k] + yn[p][k] if noise else ys[p][k]
            pw.append(env.eq(env.abs2(tout), env.abs2(tin), scale=100))
    env.check('signal and noise are rotated by exp(j*pi*u/Vpi)', env.And(rot))
    env.check('instantaneous power of the total field is unchanged', env.And(pw))
    env.check('input untouched', env.And([env.untouched(a, s) for a, s in snaps]))
    env.check('the drive (the caller\'s array / electrical_signal) is left untouched', env.And([env.untouched(a, s) for a, s in dsnap]) if dsnap else True)
    y2 = D.PM(x, drive, Vpi=Vpi)
    env.check('modulating again with the same drive object gives the same field', env.eqs(y2.signal, env.items(y.signal), scale=100))


def scen_pm_compose(env, cfg):
    D = env.lib.devices
    n, noise = cfg['n'], cfg['noise']
    x, S, N = _field(env, n, 1, noise)
    Vpi = env.real('Vpi', 0.5, 10)
    a = env.reals('a', n, -20, 20)
    b = env.reals('b', n, -20, 20)
    two = D.PM(D.PM(x, env.arr(list(a)), Vpi), env.arr(list(b)), Vpi)
    one = D.PM(x, env.arr([p + q for p, q in zip(a, b)]), Vpi)
    env.check('PM(PM(x,a),b) == PM(x,a+b) on the signal', env.eqs(two.signal, env.items(one.signal), scale=100))
    if noise:
        env.check('... and on the noise', (two.noise is not None and one.noise is not None) and
                  env.eqs(two.noise, env.items(one.noise), scale=100))


def scen_pm_reject(env, cfg):
    D = env.lib.devices
    x, S, N = _field(env, 2, 1, False)
    for m in (1, 3):
        for kind in ('ndarray', 'es'):
            try:
                D.PM(x, _drive(env, kind, env.reals(f'u{m}{kind}', m, -1, 1)))
                ok = True
            except ValueError:
                ok = False
            env.check(f'{kind} drive of length {m} != 2 raises ValueError', not ok)
    for bad in ('x', None):
        try:
            D.PM(x, bad)
            ok = True
        except TypeError:
            ok = False
        env.check(f'drive {bad!r} raises TypeError', not ok)
    try:
        D.PM(env.arr([1.0, 2.0]), 1.0)
        ok = True
    except TypeError:
        ok = False
    env.check('non-optical input raises TypeError', not ok)


def scen_laser(env, cfg):
    D, T = env.lib.devices, env.lib.typing
    n, lw_on, df_on = cfg['n'], cfg['lw'], cfg['df']
    gv = T.gv(sps=4, R=env.const('1e9'))
    t = env.arr([env.real(f't[{i}]', 0, 1e-6) for i in range(n)])
    p = env.real('p_dBm', -30, 30)
    kw = {}
    if lw_on:
        kw['lw'] = env.real('lw', 0, 1e7)
    if df_on:
        kw['df'] = env.real('df', -2.5e9, 2.5e9)
    try:
        E = D.LASER(t, p, **kw)
        ok = True
    except ValueError:
        ok = False
    if df_on:
        d = kw['df']
        env.check('offset accepted iff |df| <= fs/2', env.Iff(ok, env.And(d <= 2e9, d >= -2e9)))
    else:
        env.check('accepted', ok)
    if not ok:
        return
    P = env.pow10(p / 10 - 3)
    env.check('a LASER without RIN has |E|^2 = P at every sample (phase noise and offset are pure rotations)',
              env.And([env.eq(env.abs2(v), P, scale=1) for v in env.items(E.signal)]))
    env.check('one polarisation, no noise component, length of t', E.n_pol == 1 and E.noise is None and len(E) == n)
    if lw_on and env.impl == 'model':
        calls = [e[1] for e in env.events('rand_call')]
        sc = calls[0][2]
        env.check('phase noise is a Wiener process: zero-mean Gaussian increments of variance 2*pi*lw*dt, one per sample',
                  len(calls) == 1 and calls[0][0] == 'normal' and env.eq(calls[0][1], 0) and calls[0][3] == n
                  and env.eq(sc * sc, 2 * env.pi() * kw['lw'] * gv.dt))


def scen_laser_peak(env, cfg):
    D, T = env.lib.devices, env.lib.typing
    gv = T.gv(sps=4, R=env.const('1e9'), N=1)
    q = cfg['q']                       # df = q*fs/4
    n = 4
    t = env.arr([gv.dt * i for i in range(n)])
    p = env.real('p_dBm', -30, 30)
    E = D.LASER(t, p, df=gv.fs * q / 4)
    X = E('w')
    mags = [env.abs2(v) for v in env.items(X.signal)]
    want = q % 4
    env.check('spectral peak sits in the FFT bin of df, all other bins are empty',
              env.And([m > 0 if k == want else env.eq(m, 0, scale=1) for k, m in enumerate(mags)]))


def configs(tier):
    q = tier == 'quick'
    out = []
    N = 2 if q else 4
    for pol in (1, 2):
        for noise in (False, True):
            for dk in ('scalar', 'list', 'ndarray', 'es'):
                for sel in (('x',) if pol == 1 else ('x', 'y')):
                    n = 1 if (q and dk != 'list') else N
                    if pol == 2 and n > 2:
                        n = 2
                    out.append((f'mzm-pol{pol}-{"noise" if noise else "clean"}-{dk}-{sel}-n{n}', scen_mzm,
                                dict(n=n, pol=pol, noise=noise, drive=dk, sel=sel), {}))
    out.append(('mzm-es-len1-broadcast', scen_mzm, dict(n=2, pol=1, noise=True, drive='es', sel='x', short=True), {}))
    out.append(('mzm-ratio-periodicity', scen_mzm_ratio, {}, {}))
    out.append(('mzm-forms-pol1', scen_mzm_forms, dict(n=2, pol=1), {}))
    if not q:
        out.append(('mzm-forms-pol2', scen_mzm_forms, dict(n=2, pol=2), {}))
    for pol in (1, 2):
        for noise in (False, True):
            for dk in ('scalar', 'ndarray', 'es'):
                n = 2 if (q or pol == 2) else 3
                out.append((f'pm-pol{pol}-{"noise" if noise else "clean"}-{dk}-n{n}', scen_pm, dict(n=n, pol=pol, noise=noise, drive=dk), {}))
    for noise in (False, True):
        out.append((f'pm-compose-{"noise" if noise else "clean"}', scen_pm_compose, dict(n=1 if q else 2, noise=noise), {}))
    out.append(('pm-reject', scen_pm_reject, {}, {}))
    for lw in (False, True):
        for df in (False, True):
            out.append((f'laser-{"lw" if lw else "nolw"}-{"df" if df else "nodf"}', scen_laser, dict(n=2 if q else 3, lw=lw, df=df), {}))
    for qq in (-1, 0, 1):
        out.append((f'laser-peak-df{qq}fs/4', scen_laser_peak, dict(q=qq), {}))
    from vf import history as _history        # call-history differential of this property's blocks (vf/history.py)
    out += _history.configs_for('C06')
    return out
