"""C04 — PRBS emits the maximal-length sequence of its ITU polynomial and can be resumed.

The shift register is a 64-bit z3 bit-vector pushed through the *real* PRBS function (its loop body,
seed reduction and validation are executed as written).  Python-int semantics and 64-bit two's
complement agree here because every intermediate value stays below 2^33 after the first mask.
"""
ID = 'C04'
FUNCTIONS = [('devices', 'PRBS')]
ORDERS = {7: 6, 9: 5, 11: 9, 15: 14, 20: 3, 23: 18, 31: 28}
# prime factorisations of 2^n - 1 (verified below by multiplication and primality testing)
FACTORS = {7: [127], 9: [7, 73], 11: [23, 89], 15: [7, 31, 151], 20: [3, 5, 5, 11, 31, 41], 23: [47, 178481], 31: [2147483647]}
BOUNDS = {'seeds': 'every 64-bit two\'s complement seed (|seed| < 2^63), symbolically',
          'states': 'every register state 0 < s < 2^n of every order, symbolically (incl. the 2^31-1 states of PRBS31)',
          'lengths': 'end-to-end runs of len <= n+8 (quick) / n+64 (thorough); resume splits a+b = 24 (quick, 5 splits) / 64 (thorough, every split); PRBS7 also resumed after a first call longer than one period (130+3)',
          'orders': 'all 7 supported orders; unsupported orders -4..40 by enumeration'}
OUTSIDE = ['|seed| >= 2^63', 'end-to-end sequence lengths above the bound (covered by the one-step induction: state update + linearity + period queries)']
ASSUMPTIONS = ['period argument: the step map T is proved GF(2)-linear and equal to M1*s for all s by the solver; M1^d is computed by repeated squaring '
               'in the harness (cross-checked against the real PRBS in the validation runs); the solver then decides M_(2^n-1) s = s for all s and '
               'M_((2^n-1)/p) s != s for all s != 0 and every prime p | 2^n-1',
               'balance (2^(n-1) ones per period) follows arithmetically from: every non-zero state visited once per period and output = state bit 0']
LIMITS = {'max_paths': 400, 'max_concretise': 40}


def _isprime(p):
    if p < 2:
        return False
    i = 2
    while i * i <= p:
        if p % i == 0:
            return False
        i += 1
    return True


for _n, _f in FACTORS.items():
    _prod = 1
    for _p in _f:
        assert _isprime(_p), _p
        _prod *= _p
    assert _prod == 2 ** _n - 1, _n


def _bit(x, j):
    return (x >> j) & 1


def oracle(seed, n, t, L):
    """independent GF(2) reference: outputs a[0..L-1] and the state after L steps, from the effective seed."""
    a = {}
    for j in range(n):
        a[-j] = _bit(seed, j)
    for m in range(1, L + n):
        a[m] = a[m - n] ^ a[m - t]
    state = 0
    for j in range(n):
        state = state | (a[L - j] << j)
    return [a[k] for k in range(L)], state


def scen_sequence(env, cfg):
    PRBS = env.lib.devices.PRBS
    n, L = cfg['order'], cfg['len']
    t = ORDERS[n]
    seed = env.bv('seed', 64)
    out, state = PRBS(n, L, seed, return_seed=True)
    mask = (1 << n) - 1
    low = seed & mask
    zero = low == 0
    eff = env.ite(zero, 1, low) if not isinstance(zero, bool) else (1 if zero else low)
    if not isinstance(eff, int) and hasattr(eff, 't') and not hasattr(eff, 'w'):
        raise AssertionError('ite collapsed a bit-vector to an integer')
    bits, st = oracle(eff, n, t, L)
    data = env.items(out.data)
    env.check('output length and uint8 0/1 data', len(data) == L and env.dtype_name(out.data) == 'uint8')
    env.check('outputs follow a[m] = a[m-n] xor a[m-t] with the seed bits as predecessors (first output = seed LSB)',
              env.And([d == b for d, b in zip(data, bits)]))
    env.check('returned state is the register after len steps', state == st)
    env.check('returned state is a valid non-zero n-bit state', env.And(state > 0, state <= mask))
    nwarn = len(env.events('warn'))
    env.check('warning issued iff the seed is congruent to 0 mod 2^n (then replaced by 1)', env.Iff(zero, nwarn >= 1))


def scen_default_seed(env, cfg):
    PRBS = env.lib.devices.PRBS
    n, L = cfg['order'], cfg['len']
    out, state = PRBS(n, L, return_seed=True)
    bits, st = oracle((1 << n) - 1, n, ORDERS[n], L)
    env.check('default seed is the all-ones state', [int(v) for v in env.items(out.data)] == bits and state == st)
    env.observe('out', out.data)


def _matvec(cols, v, n):
    r = 0
    for j in range(n):
        r = r ^ ((0 - _bit(v, j)) & cols[j])
    return r


def _matmul(A, B, n):
    return [_matvec(A, B[j], n) for j in range(n)]


def _matpow(M, e, n):
    R_ = [1 << j for j in range(n)]
    P = list(M)
    while e:
        if e & 1:
            R_ = _matmul(P, R_, n)
        P = _matmul(P, P, n)
        e >>= 1
    return R_


_POW_CACHE = {}


def scen_period(env, cfg):
    PRBS = env.lib.devices.PRBS
    n = cfg['order']
    mask = (1 << n) - 1
    s = env.bv('s', 64)
    env.assume(env.And(s > 0, s <= mask))
    s2 = env.bv('s2', 64)
    env.assume(env.And(s2 > 0, s2 <= mask))
    step = lambda v: PRBS(n, 1, v, return_seed=True)
    o1, T1 = step(s)
    o2, T2 = step(s2)
    env.check('one step: output = state bit 0', env.items(o1.data)[0] == _bit(s, 0))
    env.check('one step: bit j of the new state is bit j-1 of the old one, bit 0 is the tap xor; state stays n-bit',
              T1 == (((s << 1) & mask) | (_bit(s, n - 1) ^ _bit(s, ORDERS[n] - 1))))
    env.check('one step maps non-zero states to non-zero states', T1 != 0)
    # matrix of the step from the basis vectors (concrete runs of the same code)
    cols = [int(step(1 << j)[1]) for j in range(n)]
    env.check('step map is GF(2)-linear: T(s) == M1*s for every state', T1 == _matvec(cols, s, n))
    x = s ^ s2
    # linearity in the literal form T(a^b) = T(a)^T(b), whenever a^b is itself a valid state
    if True:
        ox, Tx = step(env.ite(x == 0, 1, x) if not isinstance(x, int) else (x or 1))
        env.check('T(a xor b) == T(a) xor T(b)', env.Implies(x != 0, Tx == (T1 ^ T2)))
    N = (1 << n) - 1
    key = (n, tuple(cols))
    if key not in _POW_CACHE:
        d = {N: _matpow(cols, N, n)}
        for p in sorted(set(FACTORS[n])):
            d[N // p] = _matpow(cols, N // p, n)
        _POW_CACHE[key] = d
    pw = _POW_CACHE[key]
    env.check('T^(2^n-1) is the identity on every state (period divides 2^n-1)', _matvec(pw[N], s, n) == s)
    for p in sorted(set(FACTORS[n])):
        env.check(f'no non-zero state returns after (2^n-1)/{p} steps (period is exactly 2^n-1)', _matvec(pw[N // p], s, n) != s)
    # cross-check of the matrix-power arithmetic against the implementation on concrete runs (validation / replay modes)
    if not env.symbolic and n <= cfg.get('direct_max', 11):
        for p in sorted(set(FACTORS[n])):
            dsteps = N // p
            _, stt = PRBS(n, dsteps, s, return_seed=True)
            env.check(f'matrix power agrees with {dsteps} real steps', int(stt) == int(_matvec(pw[dsteps], s, n)))
        outp, stt = PRBS(n, N, s, return_seed=True)
        env.check('one full period returns to the start state', int(stt) == int(s))
        env.check('2^(n-1) ones per period', int(outp.ones()) == 1 << (n - 1))


def scen_resume(env, cfg):
    PRBS = env.lib.devices.PRBS
    n, a, b = cfg['order'], cfg['a'], cfg['b']
    seed = env.bv('seed', 64)
    full, sf = PRBS(n, a + b, seed, return_seed=True)
    o1, s1 = PRBS(n, a, seed, return_seed=True)
    w0 = len(env.events('warn'))
    o2, s2 = PRBS(n, b, s1, return_seed=True)
    env.check('resumed call needs no seed replacement', len(env.events('warn')) == w0)
    d = env.items(full.data)
    d12 = env.items(o1.data) + env.items(o2.data)
    env.check('a bits then b resumed bits == a+b bits in one call', env.And([x == y for x, y in zip(d, d12)]) if len(d) == len(d12) else False)
    env.check('final states agree', sf == s2)
    env.check('two sequences concatenate through the public +', (o1 + o2) == full)


def scen_validation(env, cfg):
    PRBS = env.lib.devices.PRBS
    kind = cfg['kind']
    if kind == 'order':
        o = cfg['order']
        try:
            PRBS(o, 5, 1)
            ok = True
        except ValueError:
            ok = False
        env.check('unsupported order raises ValueError; supported accepted', ok == (o in ORDERS))
    elif kind == 'len':
        L = env.int('len', -3, 5)
        try:
            r = PRBS(7, L, 5)
            ok = True
            got = len(r)
        except ValueError:
            ok = False
        env.check('len <= 0 raises ValueError, positive len accepted', env.Iff(ok, L >= 1))
        if ok:
            env.check('positive len gives that many bits', env.eq(L, got))
    elif kind == 'lentype':
        for bad in (env.real('x', 1, 9), '5', None if False else [5]):
            try:
                PRBS(7, bad, 5)
                ok = True
            except TypeError:
                ok = False
            env.check('non-int len raises TypeError', not ok)
    elif kind == 'seedmod':
        n = cfg['order']
        seed = env.bv('seed', 64)
        k = env.bv('k', 64)
        env.assume(env.And(k >= -(1 << 20), k <= (1 << 20), seed >= -(1 << 40), seed <= (1 << 40)))
        o1, s1 = PRBS(n, n + 2, seed, return_seed=True)
        o2, s2 = PRBS(n, n + 2, seed + (k << n), return_seed=True)
        env.check('seeds congruent mod 2^n (negative and oversized included) generate the same stream',
                  env.And([x == y for x, y in zip(env.items(o1.data), env.items(o2.data))] + [s1 == s2]))


def configs(tier):
    q = tier == 'quick'
    out = []
    for n in ORDERS:
        Ls = [1, n + 8] if q else [1, 2, n, n + 24, n + 64]
        for L in Ls:
            out.append((f'sequence-prbs{n}-len{L}', scen_sequence, dict(order=n, len=L), {}))
        out.append((f'default-seed-prbs{n}', scen_default_seed, dict(order=n, len=12 if q else 40), {}))
        out.append((f'period-prbs{n}', scen_period, dict(order=n, direct_max=11 if q else 15), {'validate': 2}))
        tot = 24 if q else 64
        splits = [(1, tot - 1), (tot // 2, tot - tot // 2), (tot - 1, 1), (n, n), (n - 1, 2)] if q else \
            [(a, tot - a) for a in range(1, tot)]
        for a, b in splits:
            out.append((f'resume-prbs{n}-{a}+{b}', scen_resume, dict(order=n, a=a, b=b), {}))
        out.append((f'seedmod-prbs{n}', scen_validation, dict(kind='seedmod', order=n), {}))
    # a first call longer than one period (order 7: 127), then a resumed call
    for a, b in (((130, 3),) if q else ((127, 4), (128, 3), (130, 3), (255, 2), (300, 5))):
        out.append((f'resume-prbs7-{a}+{b}-beyond-one-period', scen_resume, dict(order=7, a=a, b=b), {'validate': 2, 'limits': {'max_branches': 3000}}))
    for o in range(-4, 41):
        out.append((f'order-{o}', scen_validation, dict(kind='order', order=o), {'validate': 1}))
    out.append(('len-range', scen_validation, dict(kind='len'), {}))
    out.append(('len-type', scen_validation, dict(kind='lentype'), {}))
    return out
