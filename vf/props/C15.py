"""C15 — binary_sequence is a closed, immutable-by-operation algebra over {0,1}."""
import operator

ID = 'C15'
FUNCTIONS = [('typing', 'binary_sequence.__init__'), ('typing', 'binary_sequence.__getitem__'),
             ('typing', 'binary_sequence.__add__'), ('typing', 'binary_sequence.__radd__'),
             ('typing', 'binary_sequence.__invert__'), ('typing', 'binary_sequence.ones'),
             ('typing', 'binary_sequence.zeros'), ('typing', 'binary_sequence.len'),
             ('typing', 'electrical_signal.__gt__'), ('typing', 'electrical_signal.__lt__'),
             ('typing', 'electrical_signal.abs'), ('utils', 'str2array'), ('utils', '_get_type_array_from_str')]
BOUNDS = {'quick': 'sequence lengths <= 4 (constructor <= 4 elements, operands <= 3+3), slices with start/stop in -(n+1)..(n+1), '
                   'step in {-2,-1,1,2,3}; comparison signals of length <= 3',
          'thorough': 'constructor <= 6 elements, operands <= 4+4, signals of length <= 4',
          'rejection': 'the other operand of + (both orders; list / tuple / ndarray) drawn from integers in [-1,2], integers in [-600,600] '
                       '(values that wrap to 0/1 in uint8) and reals in [-2,3] (fractions that truncate to 0/1): accepted iff every element is 0 or 1',
          'symbolic': 'every element value (reals for the constructor, bits for the algebra, reals/complex for signals and thresholds)'}
OUTSIDE = ['symbolic string contents (strings are concrete test texts)', 'lengths above the bound',
           'ndarray as the LEFT operand of + (numpy takes over the dispatch and fails before binary_sequence is consulted)']
ASSUMPTIONS = ['"non-negative real signals and thresholds" is read as signal+noise >= 0 and threshold >= 0 (the compared quantity)']
LIMITS = {'max_paths': 4000}


def _container(env, kind, xs):
    if kind == 'list':
        return list(xs)
    if kind == 'tuple':
        return tuple(xs)
    if kind == 'ndarray':
        return env.arr(list(xs))
    if kind.startswith('ndarray-'):
        return env.arr(list(xs), dtype=kind.split('-', 1)[1])       # an array that already has a narrow / exact dtype (uint8, bool, float ...)
    raise KeyError(kind)


def _valid(env, b, n=None):
    """validity predicate of a binary_sequence object (structural part is concrete per path)."""
    d = b.data
    conds = [env.dtype_name(d) == 'uint8', d.ndim == 1]
    if n is not None:
        conds.append(d.shape[0] == n if d.ndim == 1 else False)
    conds += [env.Or(v == 0, v == 1) for v in env.items(d)]
    return env.And(conds)


# ------------------------------------------------------------------ constructor

def scen_ctor(env, cfg):
    lib = env.lib
    n, kind, vt = cfg['n'], cfg['kind'], cfg['vtype']
    if vt == 'real':
        xs = env.reals('x', n, -3, 3)
    elif vt == 'int':
        xs = [env.int(f'x[{i}]', -2, 3) for i in range(n)]
    elif vt == 'nat':
        xs = [env.int(f'x[{i}]', 0, 3) for i in range(n)]
    else:
        xs = [env.boolean(f'x[{i}]') for i in range(n)]
    if kind == 'scalar':
        data = xs[0]
    elif kind == '2d':
        h = n // 2
        data = env.arr([list(xs[:h]), list(xs[h:2 * h])])
    else:
        data = _container(env, kind, xs)
    snap = env.snap(data) if kind.startswith('ndarray') or kind == '2d' else None
    try:
        b = lib.typing.binary_sequence(data)
        ok = True
    except ValueError:
        ok = False
    binary = env.And([env.Or(x == 0, x == 1) for x in xs]) if vt != 'bool' else True
    if kind == '2d':
        env.check('2-D data is rejected', not ok)
        return
    env.check('accepted iff every element is 0 or 1', env.Iff(ok, binary))
    if ok:
        env.check('stored data is a valid 1-D uint8 0/1 vector of the input length', _valid(env, b, n))
        env.check('stored bits equal the input', env.And([env.eq(v, x) if vt != 'bool' else env.Iff(v == 1, x)
                                                            for v, x in zip(env.items(b.data), xs)]))
        env.check('len() equals the number of elements', b.len() == n and len(b) == n)
        if snap is not None:
            env.check('input array untouched and not aliased', env.And(env.untouched(data, snap), not env.shares(b.data, data)))


def scen_ctor_str(env, cfg):
    lib = env.lib
    text, expect = cfg['text'], cfg['expect']
    try:
        b = lib.typing.binary_sequence(text)
        got = [int(v) for v in env.items(b.data)]
        ok = True
    except (ValueError, TypeError):
        ok, got = False, None
    env.check('string form parsed digit by digit / rejected', (got == expect) if expect is not None else not ok)
    if ok:
        env.check('valid', _valid(env, b, len(got)))


# ------------------------------------------------------------------ algebra (one inductive step from arbitrary valid operands)

def scen_algebra(env, cfg):
    lib = env.lib
    BS = lib.typing.binary_sequence
    la, lb, okind = cfg['la'], cfg['lb'], cfg['other']
    abits = env.bits('a', la)
    bbits = env.bits('b', lb)
    a = BS(list(abits))
    sa = env.snap(a.data)
    if okind == 'bs':
        o = BS(list(bbits))
        so = env.snap(o.data)
    elif okind == 'str':
        # concrete text for the other operand
        bbits = [int(ch) for ch in cfg['text']]
        lb = len(bbits)
        o = cfg['text']
        so = None
    else:
        o = _container(env, okind, bbits)
        so = env.snap(o) if okind == 'ndarray' else None
    if cfg.get('count_first'):
        a.ones(), a.zeros()             # the parent has been counted before it is sliced / concatenated (memoised counters must not leak)
    # a + o
    c = a + o
    env.check('a+o: valid, len(a+o) == len(a)+len(o)', env.And(_valid(env, c, la + lb), len(c) == la + lb))
    env.check('a+o: (a+o)[:len(a)] == a and the rest is o',
              env.And([env.eq(v, x) for v, x in zip(env.items(c.data), list(abits) + list(bbits))]))
    if cfg.get('count_first'):
        c.ones()
    pre = c[:la]
    env.check('(a+o)[:len(a)] == a through the public slice and ==', env.And(_valid(env, pre, la), pre == a) if la else True)
    if la:
        env.check('ones()/zeros() of a slice count the slice (whatever was counted on the parent before)',
                  env.And(env.eq(pre.ones(), sum(abits)), env.eq(pre.zeros(), la - sum(abits))))
    # o + a  (reflected form; for a binary_sequence on the left this is again __add__)
    if okind != 'ndarray':
        d = o + a
        env.check('o+a: valid, length and order', env.And([_valid(env, d, la + lb)] +
                  [env.eq(v, x) for v, x in zip(env.items(d.data), list(bbits) + list(abits))]))
        env.check('o+a result does not alias operands', not env.shares(d.data, a.data))
    # inversion
    na = ~a
    nna = ~na
    env.check('~a valid and flips every bit', env.And([_valid(env, na, la)] + [env.eq(v + x, 1) for v, x in zip(env.items(na.data), abits)]))
    env.check('~~a == a', env.And([_valid(env, nna, la)] + [env.eq(v, x) for v, x in zip(env.items(nna.data), abits)]))
    env.check('ones()+zeros() == len()', env.eq(a.ones() + a.zeros(), la))
    env.check('ones() counts the ones', env.eq(a.ones(), sum(abits) if la else 0))
    env.check('ones(~a) == zeros(a)', env.eq(na.ones(), a.zeros()))
    # operands unchanged, results fresh
    env.check('operand a untouched', env.untouched(a.data, sa))
    if so is not None:
        env.check('operand o untouched', env.untouched(o.data if okind == 'bs' else o, so))
    env.check('results do not alias operands',
              not (env.shares(c.data, a.data) or env.shares(na.data, a.data) or env.shares(nna.data, a.data)
                   or (okind == 'bs' and env.shares(c.data, o.data)) or (okind == 'ndarray' and env.shares(c.data, o))))


def scen_reject(env, cfg):
    """concatenation with a non-binary / wrongly shaped / wrongly typed operand is rejected."""
    lib = env.lib
    BS = lib.typing.binary_sequence
    a = BS(list(env.bits('a', 2)))
    sa = env.snap(a.data)
    kind = cfg['kind']
    if kind == 'values':
        vt, okind = cfg.get('vtype', 'int'), cfg.get('okind', 'list')
        if vt == 'real':            # fractions: 0.5 or 1.7 must not be truncated into a bit
            xs = env.reals('x', 2, -2, 3)
        elif vt == 'wide':          # integers that wrap to 0/1 in a narrow dtype (256, 257, -255)
            xs = [env.int(f'x[{i}]', -600, 600) for i in range(2)]
        else:
            xs = [env.int(f'x[{i}]', -1, 2) for i in range(2)]
        binary = env.And([env.Or(x == 0, x == 1) for x in xs])
        mk = {'list': list, 'tuple': tuple, 'ndarray': env.arr}[okind]
        for side in (('right', 'left') if okind != 'ndarray' else ('right',)):
            r = None
            try:
                r = (a + mk(list(xs))) if side == 'right' else (mk(list(xs)) + a)
                ok = True
            except ValueError:
                ok = False
            env.check(f'{side}: concatenation accepted iff the other operand is binary', env.Iff(ok, binary))
            if ok:
                got = list(env.items(r.data))
                exp = (list(env.items(a.data)) + list(xs)) if side == 'right' else (list(xs) + list(env.items(a.data)))
                env.check(f'{side}: an accepted concatenation holds exactly the operands\' elements',
                          len(got) == len(exp) and env.And([env.eq(g, e) for g, e in zip(got, exp)]))
    elif kind == '2d':
        for side in ('right', 'left'):
            try:
                r = (a + [[0, 1], [1, 0]]) if side == 'right' else ([[0, 1], [1, 0]] + a)
                ok = True
            except ValueError:
                ok = False
            env.check(f'{side}: 2-D operand rejected', not ok)
    else:
        for other in (3, 2.5, None, {'a': 1}):
            try:
                r = a + other
                ok = True
            except TypeError:
                ok = False
            env.check(f'non-container operand {other!r} raises TypeError', not ok)
    env.check('operand untouched', env.untouched(a.data, sa))


def scen_slice(env, cfg):
    lib = env.lib
    BS = lib.typing.binary_sequence
    n = cfg['n']
    bits = env.bits('a', n)
    a = BS(list(bits))
    sa = env.snap(a.data)
    form = cfg['form']
    if form == 'int':
        i = env.int('i', -n, n - 1)
        i = operator.index(i)
        r = a[i]
        exp = [bits[i]]
    else:
        def opt(name, lo, hi):
            if cfg.get(name) == 'none':
                return None
            return operator.index(env.int(name, lo, hi))
        start = opt('start', -(n + 1), n + 1)
        stop = opt('stop', -(n + 1), n + 1)
        step = cfg['step']
        r = a[start:stop:step]
        exp = list(bits)[start:stop:step]
    env.check('slice is a valid sequence holding exactly the selected bits',
              env.And([_valid(env, r, len(exp))] + [env.eq(v, x) for v, x in zip(env.items(r.data), exp)]))
    env.check('slice does not alias and leaves the operand unchanged',
              env.And(env.untouched(a.data, sa), not env.shares(r.data, a.data)))


# ------------------------------------------------------------------ threshold comparison

def scen_compare(env, cfg):
    lib = env.lib
    ES = lib.typing.electrical_signal
    n, dt, noise, tk, op = cfg['n'], cfg['dtype'], cfg['noise'], cfg['thr'], cfg['op']
    if dt == 'complex':
        mk = lambda nm: env.cplxs(nm, n, -4, 4)
    elif dt == 'int':
        mk = lambda nm: [env.int(f'{nm}[{i}]', -4, 4) for i in range(n)]      # integer-dtype container, real thresholds
    else:
        mk = lambda nm: env.reals(nm, n, -4, 4)
    if dt in ('uint8', 'int16'):
        # raw integer records kept in a narrow dtype (the container preserves it): values whose squares do not fit the dtype
        lo, hi = (0, 255) if dt == 'uint8' else (-300, 300)
        s = [env.int(f's[{i}]', lo, hi) for i in range(n)]
        nz = None
        x = ES(env.arr(list(s), dtype=dt))
    else:
        s = mk('s')
        nz = mk('w') if noise else None
        x = ES(list(s), list(nz) if noise else None)
    if tk == 'scalar':
        t = [env.real('t', -4, 4)]
        thr = t[0]
        tl = t * n
    elif tk == 'list':
        tl = env.reals('t', n, -4, 4)
        thr = list(tl)
    else:
        tl = env.reals('t', n, -4, 4)
        thr = env.arr(list(tl))
    ss, sn = env.snap(x.signal), env.snap(x.noise)
    r = (x > thr) if op == 'gt' else (x < thr)
    env.check('comparison result is a valid binary_sequence of the signal length', _valid(env, r, n))
    tot = [a + b for a, b in zip(s, nz)] if noise else list(s)
    # |s+n| op |thr|  <=>  |s+n|^2 op thr^2   (both sides non-negative)
    cmpf = (lambda u, v: u > v) if op == 'gt' else (lambda u, v: u < v)
    conds = []
    for v, z, th in zip(env.items(r.data), tot, tl):
        conds.append(env.Iff(v == 1, cmpf(env.abs2(z), th * th)))
    env.check('result equals |signal+noise| compared with |threshold| element-wise', env.And(conds))
    if dt in ('real', 'int', 'uint8', 'int16'):
        nonneg = env.And([z >= 0 for z in tot] + [th >= 0 for th in tl])
        conds = [env.Iff(v == 1, cmpf(z, th)) for v, z, th in zip(env.items(r.data), tot, tl)]
        env.check('for non-negative signal+noise and threshold it is the plain comparison', env.Implies(nonneg, env.And(conds)))
    env.check('signal and noise untouched', env.And(env.untouched(x.signal, ss), env.untouched(x.noise, sn)))


def scen_compare_len(env, cfg):
    lib = env.lib
    ES = lib.typing.electrical_signal
    x = ES(list(env.reals('s', 3, -4, 4)))
    try:
        r = x > list(env.reals('t', 2, -4, 4))
        ok = True
    except ValueError:
        ok = False
    env.check('threshold array of another length is rejected with ValueError', not ok)


def configs(tier):
    q = tier == 'quick'
    out = []
    nmax = 4 if q else 6
    for kind in ('list', 'tuple', 'ndarray'):
        for vt in ('real', 'int', 'bool'):
            for n in ([1, 3] if q else [1, 2, 3, 5, 6]):
                if n > nmax:
                    continue
                if vt == 'real' and n > 4:
                    continue
                out.append((f'ctor-{kind}-{vt}-n{n}', scen_ctor, dict(n=n, kind=kind, vtype=vt), {}))
    for n in ([1, 3] if q else [1, 2, 3, 5]):
        out.append((f'ctor-ndarray-uint8-n{n}', scen_ctor, dict(n=n, kind='ndarray-uint8', vtype='nat'), {}))
        out.append((f'ctor-ndarray-int-as-float-n{n}', scen_ctor, dict(n=n, kind='ndarray-float', vtype='int'), {}))
    for vt in ('real', 'int', 'bool'):
        out.append((f'ctor-scalar-{vt}', scen_ctor, dict(n=1, kind='scalar', vtype=vt), {}))
    out.append(('ctor-2d', scen_ctor, dict(n=4, kind='2d', vtype='int'), {}))
    out.append(('ctor-empty-list', scen_ctor, dict(n=0, kind='list', vtype='int'), {}))
    texts = [('0101', [0, 1, 0, 1]), ('1 0,1', [1, 0, 1]), ('1', [1]), ('0,0;1,1', None), ('012', None), ('1 0 x', None),
             ('1.0 0', [1, 0]), ('', None)]
    for i, (t, e) in enumerate(texts):
        out.append((f'ctor-str-{i}', scen_ctor_str, dict(text=t, expect=e), {}))
    lens = [(1, 1), (2, 3), (3, 0)] if q else [(1, 1), (2, 3), (3, 0), (0, 2), (4, 4), (3, 4)]
    for la, lb in lens:
        for other in ('bs', 'list', 'tuple', 'ndarray'):
            out.append((f'algebra-{other}-{la}+{lb}', scen_algebra, dict(la=la, lb=lb, other=other), {}))
    for la, lb in ((2, 1), (3, 2)):
        out.append((f'algebra-bs-{la}+{lb}-counted-first', scen_algebra, dict(la=la, lb=lb, other='bs', count_first=True), {}))
    out.append(('algebra-str', scen_algebra, dict(la=2, lb=3, other='str', text='011'), {}))
    out.append(('algebra-str-sep', scen_algebra, dict(la=1, lb=2, other='str', text='10'), {}))
    for kind in ('values', '2d', 'type'):
        out.append((f'reject-{kind}', scen_reject, dict(kind=kind), {}))
    for vt in ('real', 'wide'):
        for okind in ('list', 'tuple', 'ndarray'):
            out.append((f'reject-values-{vt}-{okind}', scen_reject, dict(kind='values', vtype=vt, okind=okind), {}))
    for n in ([3] if q else [1, 3, 4]):
        out.append((f'slice-int-n{n}', scen_slice, dict(n=n, form='int'), {}))
        for step in ((None, 1, -1, 2) if q else (None, 1, -1, 2, -2, 3)):
            for st in ('sym', 'none'):
                for sp in ('sym', 'none'):
                    out.append((f'slice-n{n}-{st}:{sp}:{step}', scen_slice, dict(n=n, form='slice', start=st, stop=sp, step=step), {}))
    for dt in ('real', 'complex'):
        for noise in (False, True):
            for tk in ('scalar', 'list', 'ndarray'):
                for op in ('gt', 'lt'):
                    n = 2 if (q or dt == 'complex') else 3
                    out.append((f'cmp-{dt}-{"noise" if noise else "clean"}-{tk}-{op}', scen_compare,
                                dict(n=n, dtype=dt, noise=noise, thr=tk, op=op), {}))
    for noise in (False, True):
        for tk in ('scalar', 'list'):
            for op in ('gt', 'lt'):
                out.append((f'cmp-int-{"noise" if noise else "clean"}-{tk}-{op}', scen_compare, dict(n=2, dtype='int', noise=noise, thr=tk, op=op), {}))
    for dt in ('uint8', 'int16'):
        for op in ('gt', 'lt'):
            out.append((f'cmp-{dt}-clean-scalar-{op}', scen_compare, dict(n=2, dtype=dt, noise=False, thr='scalar', op=op), {}))
    out.append(('cmp-length-mismatch', scen_compare_len, {}, {}))
    return out
