"""C05 — DAC waveforms are slot-exact and SAMPLER inverts them."""
import operator

ID = 'C05'
FUNCTIONS = [('devices', 'DAC'), ('devices', 'SAMPLER'), ('typing', 'global_variables.__call__'),
             ('typing', 'electrical_signal.__getitem__'), ('typing', 'electrical_signal.__gt__')]
BOUNDS = {'call-history differential': 'for the blocks of this property registered in vf/history.py (concrete orders / bandwidths / gains / gv configurations, symbolic samples): the call repeated in a session that first ran it with one parameter or one gv setting changed equals the call in a fresh library instance',
          'quick': 'bits: every 0/1 pattern of 1..3 slots (symbolic); sps in {1,2,3,5,8}; Vout, bias symbolic in (-60,60); sampling instant every k in [0,sps)',
          'thorough': 'up to 4 slots; sps in {1,...,9,11,16,17,32}',
          'gaussian': 'grid sps in {8,9,16} x T in {sps/2, sps, 2*sps} x m in {1,2,4}: pulse profile evaluated with libm doubles, '
                      'affine dependence on Vout/bias decided symbolically'}
OUTSIDE = ['sps > 9 for the exact clauses (slot-local code without any sps-dependent branch)',
           'Gaussian clauses off the grid; Gaussian decode for T > sps (adjacent ones overlap above Vout/2 at the zero between them: '
           'for T = 2*sps the pattern 101 sums to 1.0*Vout — pulse physics, not a code defect)',
           'symbolic string contents']
ASSUMPTIONS = ['decode clause: Vout > 0 and bias >= 0 (the library compares magnitudes)']
LIMITS = {'max_paths': 3000}


def _bits_arg(env, form, bits):
    T = env.lib.typing
    if form == 'list':
        return list(bits)
    if form == 'tuple':
        return tuple(bits)
    if form == 'ndarray':
        return env.arr(list(bits))
    if form == 'bs':
        return T.binary_sequence(list(bits))
    raise KeyError(form)


def _setup(env, sps):
    env.lib.typing.gv(sps=sps, R=env.const('1e9'))


def scen_shape(env, cfg):
    D = env.lib.devices
    sps, n, shape, form = cfg['sps'], cfg['n'], cfg['shape'], cfg['form']
    _setup(env, sps)
    bits = env.bits('b', n)
    Vout = env.real('Vout', -47, 47)
    bias = env.real('bias', -47, 47)
    arg = _bits_arg(env, form, bits)
    snap = env.snap(arg) if form == 'ndarray' else (env.snap(arg.data) if form == 'bs' else None)
    x = D.DAC(arg, bias=bias, Vout=Vout, pulse_shape=shape)
    sig = env.items(x.signal)
    env.check('DAC returns exactly len(bits)*sps samples, no noise component', len(sig) == n * sps and x.noise is None and x.signal.ndim == 1)
    conds = []
    for i, v in enumerate(sig):
        k, r = divmod(i, sps)
        if shape in ('nrz', 'rect', 'NRZ') or r < sps // 2:
            conds.append(env.eq(v, bias + Vout * bits[k]))
        else:
            conds.append(env.eq(v, bias))
    env.check('every sample of slot k equals bias+Vout*bits[k] (NRZ) / first sps//2 samples do and the rest equal bias (RZ)', env.And(conds))
    if snap is not None:
        env.check('input bits untouched', env.untouched(arg if form == 'ndarray' else arg.data, snap))
    # SAMPLER at every instant, decode
    pos = env.And(Vout > 0, bias >= 0)
    for k in range(sps):
        y = D.SAMPLER(x, k)
        ys = env.items(y.signal)
        env.check(f'SAMPLER(x,{k}) returns samples k, k+sps, ...', len(ys) == n and env.And([env.eq(a, sig[k + j * sps]) for j, a in enumerate(ys)]))
        inside = shape in ('nrz', 'rect', 'NRZ') or k < sps // 2
        if inside:
            dec = y > (bias + Vout / 2)
            env.check(f'sampling at instant {k} inside the pulse and comparing with bias+Vout/2 returns the bits',
                      env.Implies(pos, env.And([env.eq(d, b) for d, b in zip(env.items(dec.data), bits)])))


def scen_sampler(env, cfg):
    D, T = env.lib.devices, env.lib.typing
    sps, n, noise = cfg['sps'], cfg['n'], cfg['noise']
    _setup(env, sps)
    L = n * sps + cfg.get('extra', 0)
    s = env.reals('s', L, -5, 5)
    w = env.reals('w', L, -5, 5) if noise else None
    x = T.electrical_signal(list(s), list(w) if noise else None)
    ss, sn = env.snap(x.signal), env.snap(x.noise)
    k = operator.index(env.int('k', 0, sps - 1))
    y = D.SAMPLER(x, k)
    exp_s, exp_n = list(s)[k::sps], (list(w)[k::sps] if noise else None)
    env.check('signal: samples k, k+sps, k+2*sps, ...', env.eqs(y.signal, exp_s))
    env.check('noise: the same samples (None iff no noise)', (y.noise is None) if not noise else env.eqs(y.noise, exp_n))
    env.check('input untouched, output not aliased', env.And(env.untouched(x.signal, ss), env.untouched(x.noise, sn), not env.shares(y.signal, x.signal)))


def scen_validation(env, cfg):
    D = env.lib.devices
    _setup(env, 4)
    kind = cfg['kind']
    if kind in ('Vout', 'bias'):
        v = env.real('v', -60, 60)
        try:
            D.DAC([0, 1], **{kind: v})
            ok = True
        except ValueError:
            ok = False
        env.check(f'{kind}: accepted iff |{kind}| < 48, ValueError otherwise', env.Iff(ok, env.And(v > -48, v < 48)))
    elif kind == 'types':
        for name, bad, shape in (('Vout', '1', 'nrz'), ('bias', [1.0], 'nrz'), ('Vout', env.cx(1, 1), 'nrz'), ('c', '0', 'gaussian'),
                                 ('T', env.const('4.0'), 'gaussian'), ('m', env.const('1.0'), 'gaussian')):
            try:
                D.DAC([0, 1], pulse_shape=shape, **{name: bad})
                ok = True
            except TypeError:
                ok = False
            env.check(f'wrongly typed {name} raises TypeError', not ok)
    elif kind == 'Tm':
        sps = 4
        for name, val, good in (('T', 0, False), ('T', -1, False), ('T', 2 * sps + 1, False), ('T', 2 * sps, True), ('T', 1, True),
                                ('m', 0, False), ('m', -2, False), ('m', 1, True)):
            try:
                D.DAC([0, 1], pulse_shape='gaussian', **{name: val})
                ok = True
            except ValueError:
                ok = False
            env.check(f'gaussian {name}={val}: {"accepted" if good else "ValueError"}', ok == good)
    elif kind == 'shape':
        for shp, good in (('nrz', True), ('rz', True), ('rect', True), ('gaussian', True), ('NRZ', True), ('RZ', True), ('GAUSSIAN', True),
                          ('sinc', False), ('', False), ('Nrz', False)):
            try:
                D.DAC([0, 1], pulse_shape=shp)
                ok = True
            except ValueError:
                ok = False
            env.check(f'pulse shape {shp!r}: {"accepted" if good else "ValueError"}', ok == good)
    elif kind == 'none':
        x = D.DAC([0, 1], Vout=None, bias=None)
        env.check('Vout=None, bias=None leave the unit waveform', env.eqs(x.signal, [0] * 4 + [1] * 4))


def scen_gaussian(env, cfg):
    D = env.lib.devices
    sps, T, m, pattern = cfg['sps'], cfg['T'], cfg['m'], cfg['pattern']
    _setup(env, sps)
    bits = [int(ch) for ch in pattern]
    Vout = env.real('Vout', -47, 47)
    bias = env.real('bias', -47, 47)
    unit = D.DAC(list(bits), pulse_shape='gaussian', T=T, m=m, Vout=None, bias=None)
    x = D.DAC(list(bits), pulse_shape='gaussian', T=T, m=m, Vout=Vout, bias=bias)
    p = [env.re(v) for v in env.items(unit.signal)]
    xs = env.items(x.signal)
    env.check('length is len(bits)*sps', len(xs) == len(bits) * sps)
    env.check('waveform = bias + Vout * unit pulse train (real part), imaginary part 0 for c=0',
              env.And([env.And(env.eq(env.re(v), bias + Vout * q, scale=50), env.eq(env.im(v), 0, scale=50)) for v, q in zip(xs, p)]))
    pf = [float(q) for q in p]
    env.observe('profile', [round(q, 9) for q in pf])
    if pattern.count('1') == 1:
        slot = pattern.index('1')
        ic = max(range(len(pf)), key=lambda i: pf[i])
        centre = slot * sps + sps / 2
        env.check('peak lies at the slot centre within one sample', abs(ic - centre) <= 1)
        env.check('peak reaches Vout within 5%', abs(pf[ic] - 1) <= 0.05)
        half = pf[ic] / 2
        idx = [i for i, q in enumerate(pf) if q >= half]
        l, r = idx[0], idx[-1]
        xl = l - 1 + (half - pf[l - 1]) / (pf[l] - pf[l - 1])
        xr = r + (pf[r] - half) / (pf[r] - pf[r + 1])
        env.check('half-maximum width within one sample of T', abs((xr - xl) - T) <= 1)
    if T <= sps:
        y = D.SAMPLER(x, sps // 2)
        dec = y > (bias + Vout / 2)
        pos = env.And(Vout > 0, bias >= 0)
        env.check('sampling at sps//2 and comparing with bias+Vout/2 returns the bits',
                  env.Implies(pos, env.And([env.eq(d, b) for d, b in zip(env.items(dec.data), bits)])))


def scen_strbits(env, cfg):
    D = env.lib.devices
    _setup(env, cfg['sps'])
    x = D.DAC(cfg['text'], Vout=env.const('2.0'), bias=env.const('0.5'), pulse_shape=cfg['shape'])
    bits = [int(c) for c in cfg['text'].replace(' ', '').replace(',', '')]
    y = D.SAMPLER(x, 0)
    env.check('string input: slot-exact waveform', env.eqs(y.signal, [0.5 + 2 * b for b in bits]) and len(env.items(x.signal)) == len(bits) * cfg['sps'])


def configs(tier):
    q = tier == 'quick'
    out = []
    spss = (1, 2, 3, 5, 8) if q else (1, 2, 3, 4, 5, 6, 7, 8, 9, 11, 16, 17, 32)
    for shape in ('nrz', 'rz'):
        for sps in spss:
            for n in ((1, 3) if q else (1, 2, 4, 6)):
                if q and sps == 8 and n == 3:
                    n = 2
                forms = ('list',) if (q and sps not in (2, 3)) else ('list', 'tuple', 'ndarray', 'bs')
                for form in forms:
                    out.append((f'{shape}-sps{sps}-n{n}-{form}', scen_shape, dict(sps=sps, n=n, shape=shape, form=form), {}))
    out.append(('rect-sps3-n2', scen_shape, dict(sps=3, n=2, shape='rect', form='list'), {}))
    out.append(('RZ-sps4-n2', scen_shape, dict(sps=4, n=2, shape='RZ', form='list'), {}))
    for sps in ((2, 3) if q else (1, 2, 3, 5, 9)):
        for noise in (False, True):
            out.append((f'sampler-sps{sps}-{"noise" if noise else "clean"}', scen_sampler, dict(sps=sps, n=3, noise=noise, extra=0), {}))
    out.append(('sampler-ragged', scen_sampler, dict(sps=3, n=2, noise=True, extra=2), {}))
    for kind in ('Vout', 'bias', 'types', 'Tm', 'shape', 'none'):
        out.append((f'validation-{kind}', scen_validation, dict(kind=kind), {}))
    grid = [(8, 4, 1), (8, 8, 2), (9, 9, 1), (9, 18, 1)] if q else \
        [(s, T, m) for s in (8, 9, 16) for T in (s // 2, s, 2 * s) for m in (1, 2, 4)]
    for sps, T, m in grid:
        pats = ['00100'] if q else ['00100', '01000', '00010']
        for ptn in pats:
            out.append((f'gaussian-sps{sps}-T{T}-m{m}-{ptn}', scen_gaussian, dict(sps=sps, T=T, m=m, pattern=ptn), {'validate': 1}))
        if T <= sps:
            for ptn in (['01101'] if q else ['01101', '10101', '11011']):
                out.append((f'gaussian-sps{sps}-T{T}-m{m}-{ptn}', scen_gaussian, dict(sps=sps, T=T, m=m, pattern=ptn), {'validate': 1}))
    for i, (txt, shape) in enumerate((('0110', 'nrz'), ('1 0,1', 'rz'))):
        out.append((f'str-{i}', scen_strbits, dict(text=txt, shape=shape, sps=2), {}))
    from vf import history as _history        # call-history differential of this property's blocks (vf/history.py)
    out += _history.configs_for('C05')
    return out
