"""C03 — a noise-free link built from the library's blocks returns the transmitted bits (eye-based DSP and dispersive element outside)."""
ID = 'C03'
FUNCTIONS = [('devices', 'DAC'), ('devices', 'MZM'), ('devices', 'PD'), ('devices', 'LPF'), ('devices', 'SAMPLER'),
             ('typing', 'electrical_signal.__gt__'), ('ppm', 'PPM_ENCODER'), ('ppm', 'PPM_DECODER'), ('ppm', 'SDD'), ('ppm', 'HDD'),
             ('ppm', 'DSP'), ('ppm', 'BER_analizer'), ('ook', 'BER_analizer')]
BOUNDS = {'OOK chain': 'every bit pattern (symbolic) of n slots at sps with n*sps in {18,20}: (sps,n) in {(4,5),(5,4),(6,3)}; NRZ; PD bandwidth/R in {0.7, 1.0} '
                       '(quick) / {0.7, 1.0, 1.5}; decided in stages cut at the modulator output — (1) DAC->MZM gives a slot-aligned two-level power '
                       'waveform for every DAC level, MZM bias, Vpi, loss, ER, carrier power (bit patterns of 3 slots enumerated); (2) any two-level field (amplitudes A0 < A1) through PD -> '
                       'SAMPLER -> midway threshold returns the bits for every r, R_load — plus end-to-end runs with the drive pinned to the '
                       'modulator peak/null (enumerated bit patterns; P, loss, ER >= 10 dB, r, R_load symbolic); one and two polarisation carriers',
          'PPM': 'M in {2,4} x 2 symbols, M = 8 x 1 symbol (quick); up to M = 16 (thorough); sps in {2,3}; soft decision and hard decision with the '
                 'threshold midway between the levels; every bit string symbolically, HDD draws symbolic',
          'counter': 'every Tx and every flip mask of 1..4 bits, all container combinations of (Tx, Rx)'}
OUTSIDE = ['ook.DSP and ppm.DSP with an estimated threshold (GET_EYE: KMeans / KDE are outside the model, see C17)',
           'a dispersive element in the chain (the 1 % bound is a perturbation argument, not an algebraic identity)',
           'Gaussian pulse shape in the full chain; sps > 6; more than 5 slots']
ASSUMPTIONS = ['the received ON level exceeds the OFF level (L1 > L0) — the decision threshold is midway between them',
               'stage composition: the detector output depends on the field only through its per-sample power (C09: square law, phase invariance)',
               'sosfiltfilt is linear (filter matrix read off the real scipy)']
LIMITS = {'max_paths': 5000, 'max_branches': 900, 'query_timeout_ms': 180000}


def _level(env, b, dbias, Vout, mb, Vpi, loss, ER, P, r, Rl):
    th = env.pi() * (dbias + Vout * b + mb) / (2 * Vpi)
    c, s = env.cos(th), env.sin(th)
    return r * Rl * env.pow10(-loss / 10) * P * (c * c + env.pow10(-ER / 10) * s * s)


def scen_ook_levels(env, cfg):
    """stage 1 (all analog parameters symbolic): the field leaving DAC -> MZM has, in every sample of slot k, the power of level b_k."""
    D, T = env.lib.devices, env.lib.typing
    sps, n, pol = cfg['sps'], cfg['n'], cfg['pol']
    T.gv(sps=sps, R=env.const('1e9'))
    bits = [int(ch) for ch in cfg['pattern']]       # the bit pattern is enumerated (slot-local code); all analog parameters symbolic
    Vout = env.real('Vout', -10, 10)
    dbias = env.real('dac_bias', -5, 5)
    u = D.DAC(list(bits), bias=dbias, Vout=Vout, pulse_shape='nrz')
    P = env.real('P', 1e-4, 0.1)
    sp = env.sqrt(P)
    L = n * sps
    carrier = T.optical_signal([sp] * L) if pol == 1 else T.optical_signal([[sp] * L, [sp] * L])
    mb = env.real('mzm_bias', -10, 10)
    Vpi = env.real('Vpi', 1, 10)
    loss = env.real('loss_dB', 0, 10)
    ER = env.real('ER_dB', 10, 40)
    m = D.MZM(carrier, u, bias=mb, Vpi=Vpi, loss_dB=loss, ER_dB=ER)
    one = 1 + 0 * P
    lv = [_level(env, b, dbias, Vout, mb, Vpi, loss, ER, P, one, one) for b in (0, 1)]
    rows = env.rows(m.signal)
    conds = []
    for k in range(L):
        pw = sum(env.abs2(rows[p][k]) for p in range(pol))
        b = bits[k // sps]
        conds.append(env.eq(pw, lv[b], scale=0.1))
    env.check('every sample of slot k leaves the modulator with the optical power of level b_k (two-level waveform, slot-aligned)', env.And(conds))


def scen_ook_detect(env, cfg):
    """stage 2: a two-level field (amplitudes A0 < A1 per slot) through PD -> SAMPLER -> midway threshold returns the bits."""
    D, T = env.lib.devices, env.lib.typing
    sps, n, ratio, pol = cfg['sps'], cfg['n'], cfg['ratio'], cfg['pol']
    T.gv(sps=sps, R=env.const('1e9'))
    bits = env.bits('b', n)
    L = n * sps
    r = env.real('r', 0.1, 1)
    Rl = env.real('R_load', 10, 1e3)
    if cfg.get('er_dB') is not None:
        # extinction ratio from the configuration, detector gain symbolic (sub-second obligations)
        er = cfg['er_dB']
        a0 = env.num(0.0 if er == 'inf' else (10 ** (-er / 10)) ** 0.5)
        one = 1 + 0 * a0
        amp = [env.ite(env.eq(bits[k // sps], 1), one, a0) for k in range(L)]
        L0, L1 = r * Rl * a0 * a0, r * Rl
    else:
        # both optical power levels symbolic (thorough tier: tens of seconds per bit)
        P0 = env.real('P0', 0, 1)
        P1 = env.real('P1', 0.001, 1)
        env.assume(P1 >= P0 + env.const('0.001') if env.symbolic else P1 >= P0 * 1.05 + 0.01)
        amp = [env.sqrt(env.ite(env.eq(bits[k // sps], 1), P1, P0)) for k in range(L)]
        L0, L1 = r * Rl * P0, r * Rl * P1
    zero = [0 * r] * L
    field = T.optical_signal(list(amp)) if pol == 1 else T.optical_signal([list(amp), zero])
    y = D.PD(field, env.num(ratio * 1e9), r=r, R_load=Rl, include_noise='ase-only', i_dark=0)
    z = D.SAMPLER(y, sps // 2)
    dec = z > (L0 + L1) / 2
    dd = env.items(dec.data)
    env.check('one decision per slot', len(dd) == n)
    for j, (d, b) in enumerate(zip(dd, bits)):
        env.check(f'slot {j}: sampling at the slot centre and thresholding midway between the received levels returns the transmitted bit', env.eq(d, b))


def scen_ook(env, cfg):
    """end to end with the drive pinned to the peak/null of the modulator (theta = 0 for a 1, pi/2 for a 0)."""
    D, T = env.lib.devices, env.lib.typing
    sps, n, ratio, pol = cfg['sps'], cfg['n'], cfg['ratio'], cfg['pol']
    T.gv(sps=sps, R=env.const('1e9'))
    bits = [int(ch) for ch in cfg['pattern']]       # enumerated bit pattern; P, loss, ER, r, R_load symbolic
    Vpi = cfg.get('Vpi', 5)
    u = D.DAC(list(bits), bias=Vpi, Vout=-Vpi, pulse_shape='nrz')
    P = env.real('P', 1e-4, 0.1)
    sp = env.sqrt(P)
    L = n * sps
    carrier = T.optical_signal([sp] * L) if pol == 1 else T.optical_signal([[sp] * L, [sp] * L])
    loss = env.real('loss_dB', 0, 10)
    ER = env.real('ER_dB', 10, 40)
    m = D.MZM(carrier, u, bias=0, Vpi=Vpi, loss_dB=loss, ER_dB=ER)
    r = env.real('r', 0.1, 1)
    Rl = env.real('R_load', 10, 1e3)
    y = D.PD(m, env.num(ratio * 1e9), r=r, R_load=Rl, include_noise='ase-only', i_dark=0)
    L1 = r * Rl * env.pow10(-loss / 10) * P
    L0 = L1 * env.pow10(-ER / 10)
    z = D.SAMPLER(y, sps // 2)
    dec = z > (L0 + L1) / 2
    dd = env.items(dec.data)
    env.check('one decision per slot', len(dd) == n)
    for j, (d, b) in enumerate(zip(dd, bits)):
        env.check(f'slot {j}: sampling at the slot centre and thresholding midway between the received levels returns the transmitted bit', env.eq(d, b))


def scen_ppm(env, cfg):
    D, T, P_ = env.lib.devices, env.lib.typing, env.lib.ppm
    M, nsym, sps, shape, decision = cfg['M'], cfg['nsym'], cfg['sps'], cfg['shape'], cfg['decision']
    k = M.bit_length() - 1
    T.gv(sps=sps, R=env.const('1e9'))
    bits = env.bits('b', k * nsym + cfg.get('extra', 0))
    code = P_.PPM_ENCODER(list(bits), M)
    Vout = env.real('Vout', 0.5, 10)
    bias = env.real('bias', 0, 5)
    x = D.DAC(code, bias=bias, Vout=Vout, pulse_shape=shape)
    if decision == 'soft':
        out = P_.DSP(x, M, decision='soft')
    else:
        out = P_.DSP(x, M, decision='hard', threshold=bias + Vout / 2)
    keep = k * nsym
    env.check(f'ppm.DSP ({decision}) on the waveform of PPM_ENCODER output returns the transmitted data',
              len(env.items(out.data)) == keep and env.And([env.eq(d, b) for d, b in zip(env.items(out.data), bits[:keep])]))
    env.check("ppm.BER_analizer('counter') reports 0 for it",
              env.eq(P_.BER_analizer('counter', Tx=T.binary_sequence(list(bits[:keep])), Rx=out), 0))
    if env.impl == 'model':
        env.check('no random repair was needed (valid codewords)', len(env.events('rand_call')) == 0)


def scen_counter(env, cfg):
    T = env.lib.typing
    mod = env.lib.ook if cfg['mod'] == 'ook' else env.lib.ppm
    n, ft, fr = cfg['n'], cfg['tx_form'], cfg['rx_form']
    tx = env.bits('tx', n)
    flip = env.bits('f', n)
    rx = [env.ite(env.eq(f, 1), 1 - t, t) for t, f in zip(tx, flip)]
    if cfg.get('extra'):
        # the transmitted record is longer than the received one (a PPM link drops the bits of an incomplete last symbol):
        # the counter compares the received bits with the first len(Rx) transmitted ones, so the rate is still k/len(Rx)
        tx = list(tx) + list(env.bits('tail', cfg['extra']))

    def form(kind, xs):
        if kind == 'bs':
            return T.binary_sequence(list(xs))
        if kind == 'list':
            return list(xs)
        if kind == 'tuple':
            return tuple(xs)
        return env.arr(list(xs))
    try:
        ber = mod.BER_analizer('counter', Tx=form(ft, tx), Rx=form(fr, rx))
        raised = None
    except Exception as e:          # noqa
        raised = f'{type(e).__name__}: {e}'
    env.check('counter mode accepts every container combination of (Tx, Rx)', raised is None, raised=raised)
    if raised:
        return
    env.check("BER_analizer('counter') reports k/n for a sequence with k flipped bits", env.eq(ber * n, sum(flip), scale=n))


def configs(tier):
    q = tier == 'quick'
    out = []
    geo = [(4, 5), (5, 4), (6, 3)]
    for sps, n in geo:
        for pol in (1, 2):
            for ptn in (('010', '110') if q else ('000', '001', '010', '011', '100', '101', '110', '111')):
                out.append((f'ook-levels-sps{sps}-{ptn}-pol{pol}', scen_ook_levels, dict(sps=sps, n=3, pol=pol, pattern=ptn), {'validate': 1}))
        for ratio in ((0.7, 1.0) if q else (0.7, 1.0, 1.5)):
            for pol in (1, 2):
                if q and pol == 2 and (sps, ratio) != (4, 0.7):
                    continue
                for er in ((10, 'inf') if q else (10, 13, 20, 'inf')):
                    out.append((f'ook-detect-sps{sps}-n{n}-bw{ratio}R-pol{pol}-ER{er}', scen_ook_detect,
                                dict(sps=sps, n=n, ratio=ratio, pol=pol, er_dB=er), {'validate': 1}))
                if not q and pol == 1 and (sps, ratio) == (6, 1.0):       # one geometry: each symbolic-level obligation may take minutes
                    out.append((f'ook-detect-sps{sps}-n{n}-bw{ratio}R-symbolic-levels', scen_ook_detect,
                                dict(sps=sps, n=n, ratio=ratio, pol=pol, er_dB=None), {'validate': 1, 'limits': {'query_timeout_ms': 600000}}))
                if (sps, ratio) == (4, 0.7) or not q:
                    import itertools
                    pats = [''.join(p_) for p_ in itertools.product('01', repeat=n)]
                    if q:
                        pats = [p_ for p_ in pats if p_ in ('01011', '10100', '00100', '11011', '01010')]
                    for ptn in pats:
                        out.append((f'ook-end2end-sps{sps}-{ptn}-bw{ratio}R-pol{pol}', scen_ook,
                                    dict(sps=sps, n=n, ratio=ratio, pol=pol, pattern=ptn), {'validate': 1}))
    ppm = [(2, 2, 2, 'nrz'), (4, 2, 2, 'nrz'), (4, 1, 3, 'rz'), (8, 1, 2, 'nrz')] if q else \
        [(2, 3, 2, 'nrz'), (2, 2, 3, 'rz'), (4, 2, 2, 'nrz'), (4, 2, 3, 'rz'), (8, 1, 2, 'nrz'), (8, 2, 2, 'rz'), (16, 1, 2, 'nrz')]
    for M, nsym, sps, shape in ppm:
        for decision in ('soft', 'hard'):
            if decision == 'hard' and shape == 'rz':
                continue        # the property's chain is NRZ/Gaussian; the centre-of-slot sample of an RZ pulse lies outside the pulse
            out.append((f'ppm-M{M}-x{nsym}-sps{sps}-{shape}-{decision}', scen_ppm, dict(M=M, nsym=nsym, sps=sps, shape=shape, decision=decision), {'validate': 1}))
    out.append(('ppm-M4-truncation', scen_ppm, dict(M=4, nsym=1, sps=2, shape='nrz', decision='soft', extra=1), {'validate': 1}))
    for mod in ('ook', 'ppm'):
        for ft in ('bs', 'list', 'ndarray', 'tuple'):
            for fr in ('bs', 'list', 'ndarray', 'tuple'):
                if q and 'tuple' in (ft, fr) and ft != fr:
                    continue
                out.append((f'counter-{mod}-{ft}-{fr}', scen_counter, dict(mod=mod, n=3 if q else 4, tx_form=ft, rx_form=fr), {}))
        for extra in ((1,) if q else (1, 2, 3)):
            for ft, fr in (('bs', 'bs'), ('list', 'ndarray')):
                out.append((f'counter-{mod}-{ft}-{fr}-tx-longer-by-{extra}', scen_counter, dict(mod=mod, n=3 if q else 4, tx_form=ft, rx_form=fr, extra=extra), {}))
    # links simulated one after another in one session: the receiver filter of the later link is designed for its own sampling rate
    from vf.props import C11 as _C11
    out.append(('receiver-filter-follows-gv-across-links', _C11.scen_history, dict(kind='LPF'), {'validate': 1}))
    return out
