"""C02 — time/frequency transforms are exact inverses on the sampling-rate FFT grid."""
import math

ID = 'C02'
FUNCTIONS = [('typing', 'electrical_signal.__call__'), ('typing', 'electrical_signal.w'), ('typing', 'electrical_signal.fs'),
             ('typing', 'electrical_signal.power'), ('typing', 'electrical_signal.abs'), ('typing', 'electrical_signal.t'),
             ('typing', 'electrical_signal.dt'), ('typing', 'electrical_signal.sps'), ('typing', 'global_variables.__call__')]
BOUNDS = {'lengths': 'N in {1,2,3,4,5,6,8,10,12} (quick: {1,2,3,4,5,8}); exact twiddle factors in Q(sqrt2, sqrt3, sqrt5, sin36, sin72)',
          'values': 'every complex sample of signal and noise symbolic; one and two polarisations; gv configured through the real gv(sps=.., R=..) / '
                    'gv(fs=.., R=..) with symbolic R (fs = R*sps, sps in 1..4)',
          'sampling rate not a multiple of the slot rate': 'gv(R, fs) and gv(fs) with fs/R = 2.6 (thorough: 2.6, 3.4, 1.25, 7.7), R = 1e9 and symbolic R; '
                                                           'w(), fs(), dt(), t() of signals of length 3 (thorough 2, 3, 4, 7) against the fs given',
          'axis with a gv grid in force': 'w() / t() / power() of signals of length 3..15 (thorough ..25) while gv(sps, R, N) holds its own grid of '
                                          'N*sps points, equal to the signal length (odd and even) or not'}
OUTSIDE = ['other lengths (7, 9, 11, ... need twiddle factors outside the exact field)', 'floating-point rounding of the FFT']
ASSUMPTIONS = ['numpy.fft.fft/ifft are the DFT pair with 1/N on the inverse; fftshift/ifftshift are the rotations by N//2 and -(N//2) '
               '(the model delegates the shifts to numpy itself and is validated against numpy.fft on every run)']
LIMITS = {'max_paths': 50, 'query_timeout_ms': 120000}


def _cs(env, N, k):
    if env.impl == 'real':
        a = 2 * math.pi * (k % N) / N
        return math.cos(a), math.sin(a)
    from vf import dft
    return dft.cs_exact(N, k)


def my_dft(env, xs, inverse=False):
    N = len(xs)
    out = []
    for k in range(N):
        acc = None
        for n, x in enumerate(xs):
            c, s = _cs(env, N, k * n)
            t = x * env.cx(c, s if inverse else -s)
            acc = t if acc is None else acc + t
        if inverse:
            acc = acc / N
        out.append(acc)
    return out


def _obj(env, cls, n, pol, noise):
    T = env.lib.typing
    S = [env.cplxs(f'x.s{p}', n, -3, 3) for p in range(pol)]
    N = [env.cplxs(f'x.n{p}', n, -3, 3) for p in range(pol)] if noise else None
    if cls == 'es':
        o = T.electrical_signal(list(S[0]), list(N[0]) if noise else None)
    elif pol == 1:
        o = T.optical_signal(list(S[0]), list(N[0]) if noise else None)
    else:
        o = T.optical_signal([list(r) for r in S], [list(r) for r in N] if noise else None)
    return o, S, N


def _setup(env, cfg):
    T = env.lib.typing
    Rr = env.real('R', 1e6, 1e11)
    if cfg.get('N'):
        gv = T.gv(sps=cfg['sps'], R=Rr, N=cfg['N'])       # a slot count in force: gv carries its own t / w grid of N*sps points
    elif cfg.get('via', 'sps') == 'sps':
        gv = T.gv(sps=cfg['sps'], R=Rr)
    else:
        gv = T.gv(fs=Rr * cfg['sps'], R=Rr)
    return gv, Rr * cfg['sps']


def scen_transform(env, cfg):
    n, pol, noise, cls = cfg['n'], cfg['pol'], cfg['noise'], cfg['cls']
    gv, fs = _setup(env, cfg)
    x, S, N = _obj(env, cls, n, pol, noise)
    X = x('w')
    Xf = x('f')
    back = X('t')
    XS, XN = env.rows(X.signal), (env.rows(X.noise) if noise else None)
    # which transform: forward DFT along the last axis, signal and noise alike
    conds = [env.eq(a, b, scale=30) for p in range(pol) for a, b in zip(XS[p], my_dft(env, S[p]))]
    env.check("x('w').signal is the DFT of each row of x.signal", env.And(conds))
    if noise:
        env.check("x('w').noise is the DFT of each row of x.noise", env.And([env.eq(a, b, scale=30) for p in range(pol) for a, b in zip(XN[p], my_dft(env, N[p]))]))
    env.check("'f' is a synonym of 'w'", env.And(env.eqs(Xf.signal, env.items(X.signal), scale=30), (not noise) or env.eqs(Xf.noise, env.items(X.noise), scale=30)))
    env.check("x('w')('t') reproduces x (signal)", env.And([env.eq(a, b, scale=30) for p, r in enumerate(env.rows(back.signal)) for a, b in zip(r, S[p])]))
    if noise:
        env.check("x('w')('t') reproduces x (noise)", env.And([env.eq(a, b, scale=30) for p, r in enumerate(env.rows(back.noise)) for a, b in zip(r, N[p])]))
    fwd = x('t')('w')
    env.check("x('t')('w') reproduces x", env.And([env.eq(a, b, scale=30) for p, r in enumerate(env.rows(fwd.signal)) for a, b in zip(r, S[p])]))
    xt = x('t')
    env.check("x('t').signal is the inverse DFT (1/N normalisation) of each row", env.And(
        [env.eq(a, b, scale=30) for p in range(pol) for a, b in zip(env.rows(xt.signal)[p], my_dft(env, S[p], inverse=True))]))
    # Parseval per polarisation
    for p in range(pol):
        e_t = sum(env.abs2(v) for v in S[p])
        e_f = sum(env.abs2(v) for v in XS[p])
        env.check(f'Parseval in polarisation {p}: sum|X|^2 == N*sum|x|^2', env.eq(e_f, n * e_t, scale=300))
    env.check('class, layout and length preserved', type(X) is type(x) and X.signal.shape == x.signal.shape and (X.noise is not None) == noise)


def scen_shift(env, cfg):
    n, pol, noise, cls = cfg['n'], cfg['pol'], cfg['noise'], cfg['cls']
    gv, fs = _setup(env, cfg)
    np = env.np
    x, S, N = _obj(env, cls, n, pol, noise)
    X, Xs = x('w'), x('w', True)
    t, ts = x('t'), x('t', True)
    env.check("shift=True only reorders: ifftshift(x('w', True)) == x('w') (signal and noise)",
              env.And([env.eqs(np.fft.ifftshift(Xs.signal, axes=-1), env.items(X.signal), scale=30)] +
                      ([env.eqs(np.fft.ifftshift(Xs.noise, axes=-1), env.items(X.noise), scale=30)] if noise else [])))
    env.check("fftshift(x('t', True)) == x('t') (signal and noise)",
              env.And([env.eqs(np.fft.fftshift(ts.signal, axes=-1), env.items(t.signal), scale=30)] +
                      ([env.eqs(np.fft.fftshift(ts.noise, axes=-1), env.items(t.noise), scale=30)] if noise else [])))
    # explicit index form: fftshift moves index (k + n//2) % n ... (distinguishes the two shifts for odd n)
    XS, XSs = env.rows(X.signal), env.rows(Xs.signal)
    h = n // 2
    env.check("x('w', True)[k] == x('w')[(k - n//2) mod n]  (fftshift, odd lengths included)",
              env.And([env.eq(XSs[p][k], XS[p][(k - h) % n], scale=30) for p in range(pol) for k in range(n)]))
    tS, tSs = env.rows(t.signal), env.rows(ts.signal)
    env.check("x('t', True)[k] == x('t')[(k + n//2) mod n]  (ifftshift)",
              env.And([env.eq(tSs[p][k], tS[p][(k + h) % n], scale=30) for p in range(pol) for k in range(n)]))


def scen_axis_noncommensurate(env, cfg):
    """gv(R=.., fs=..) with fs/R not an integer: sps is rounded, but the sampling rate in force is the fs that was given."""
    T = env.lib.typing
    n, cls, pol = cfg['n'], cfg['cls'], cfg['pol']
    Rr = env.real('R', 1e6, 1e11) if cfg.get('symR') else env.const(cfg['R'])
    fs = Rr * env.const(cfg['ratio'])
    if cfg.get('with_R', True):
        T.gv(R=Rr, fs=fs)
    else:
        T.gv(sps=2, R=Rr)
        T.gv(fs=fs)                      # only fs: sps from the R in force
    x, S, N = _obj(env, cls, n, pol, False)
    freqs = [(i if i < (n + 1) // 2 else i - n) for i in range(n)]
    exp = [2 * env.pi() * k / n * fs for k in freqs]
    w = env.items(x.w())
    env.check('w() == 2*pi*fftfreq(len)*fs for the sampling rate now in gv (fs given directly, fs/R not an integer)',
              len(w) == n and env.And([env.eq(a, b, scale=1e13) for a, b in zip(w, exp)]))
    env.check('fs() and dt() report the sampling rate in force', env.And(env.eq(x.fs(), fs, scale=1e12), env.eq(x.dt() * fs, 1, scale=1)))
    tt = env.items(x.t())
    env.check('t() has len samples from 0 to len*dt', len(tt) == n and env.eq(tt[0], 0) and env.eq(tt[-1], n / fs, scale=1e-5))


def scen_axis_power(env, cfg):
    n, pol, noise, cls = cfg['n'], cfg['pol'], cfg['noise'], cfg['cls']
    gv, fs = _setup(env, cfg)
    x, S, N = _obj(env, cls, n, pol, noise)
    w = env.items(x.w())
    ws = env.items(x.w(shift=True))
    freqs = [(i if i < (n + 1) // 2 else i - n) for i in range(n)]
    exp = [2 * env.pi() * k / n * fs for k in freqs]
    sh = exp[(n + 1) // 2:] + exp[:(n + 1) // 2]
    env.check('w() == 2*pi*fftfreq(len)*fs for the sampling rate now in gv', len(w) == n and env.And([env.eq(a, b, scale=1e13) for a, b in zip(w, exp)]))
    env.check('w(shift=True) is the fftshift-ed axis', env.And([env.eq(a, b, scale=1e13) for a, b in zip(ws, sh)]))
    env.check('fs(), sps(), dt() report the gv values', env.And(env.eq(x.fs(), fs, scale=1e12), x.sps() == cfg['sps'], env.eq(x.dt() * fs, 1, scale=1)))
    tt = env.items(x.t())
    stop = n / fs
    env.check('t() has len samples from 0 to len*dt', len(tt) == n and env.eq(tt[0], 0) and (n == 1 or env.eq(tt[-1], stop, scale=1e-5)))
    # a later reconfiguration is picked up (the axis is computed from the gv now in force)
    T = env.lib.typing
    R2 = env.real('R2', 1e6, 1e11)
    T.gv(sps=cfg['sps'] + 1, R=R2)
    w2 = env.items(x.w())
    env.check('after gv is reconfigured, w() follows the new fs', env.And([env.eq(a, 2 * env.pi() * k / n * (R2 * (cfg['sps'] + 1)), scale=1e13) for a, k in zip(w2, freqs)]))
    pw = x.power()
    tot = [[a + b for a, b in zip(rs, rn)] for rs, rn in zip(S, N)] if noise else S
    exp_p = [sum(env.abs2(v) for v in row) / n for row in tot]
    got = env.items(pw) if pol == 2 else [pw]
    env.check('power() == mean |signal+noise|^2 per polarisation', len(got) == pol and env.And([env.eq(a, b, scale=30) for a, b in zip(got, exp_p)]))
    ps = x.power('signal')
    gs = env.items(ps) if pol == 2 else [ps]
    env.check("power('signal') uses the signal only", env.And([env.eq(a, sum(env.abs2(v) for v in row) / n, scale=30) for a, row in zip(gs, S)]))


def configs(tier):
    q = tier == 'quick'
    out = []
    Ns = (1, 2, 3, 4, 5, 8) if q else (1, 2, 3, 4, 5, 6, 8, 10, 12)
    for n in Ns:
        for cls, pol in (('es', 1), ('os', 2)) if q else (('es', 1), ('os', 1), ('os', 2)):
            for noise in (False, True):
                if n == 8 and (pol == 2 or noise) and q:
                    continue
                if n >= 6 and pol == 2 and noise:
                    continue
                if n >= 10 and (pol == 2 or noise):
                    continue
                base = dict(n=n, pol=pol, noise=noise, cls=cls, sps=1 + n % 4, via='sps' if n % 2 else 'fs')
                tag = f'{cls}{pol}-{"noise" if noise else "clean"}-n{n}'
                out.append((f'transform-{tag}', scen_transform, base, {}))
                out.append((f'shift-{tag}', scen_shift, base, {}))
                out.append((f'axis-power-{tag}', scen_axis_power, base, {}))
    # sampling rate given directly, not a multiple of the slot rate
    for cls, pol in (('es', 1), ('os', 2)):
        for ratio in (('2.6',) if q else ('2.6', '3.4', '1.25', '7.7')):
            for with_R in (True, False):
                for n in ((3,) if q else (2, 3, 4, 7)):
                    out.append((f'axis-noncomm-{cls}{pol}-ratio{ratio}-{"R+fs" if with_R else "fs-only"}-n{n}', scen_axis_noncommensurate,
                                dict(cls=cls, pol=pol, n=n, R='1e9', ratio=ratio, with_R=with_R), {}))
                    out.append((f'axis-noncomm-{cls}{pol}-ratio{ratio}-{"R+fs" if with_R else "fs-only"}-n{n}-symR', scen_axis_noncommensurate,
                                dict(cls=cls, pol=pol, n=n, R='1e9', ratio=ratio, with_R=with_R, symR=True), {}))
    # the signal's own axis while gv holds a grid of the same (or another) length: (len, sps, N)
    for n, sps, N in ((3, 3, 1), (9, 3, 3), (4, 2, 2), (6, 3, 2), (5, 2, 2), (15, 5, 3)) if q else \
            ((3, 3, 1), (9, 3, 3), (4, 2, 2), (6, 3, 2), (5, 2, 2), (15, 5, 3), (21, 3, 7), (25, 5, 5), (8, 4, 2), (7, 7, 1), (7, 2, 3)):
        for cls, pol in (('es', 1), ('os', 2)):
            out.append((f'axis-power-{cls}{pol}-gvN{N}-sps{sps}-n{n}', scen_axis_power, dict(n=n, pol=pol, noise=False, cls=cls, sps=sps, N=N), {}))
    return out
