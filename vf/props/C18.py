"""C18 — ADC is a true n-bit quantiser; shortest_int returns a shortest covering interval."""
ID = 'C18'
FUNCTIONS = [('devices', 'ADC'), ('utils', 'shortest_int')]
BOUNDS = {'shortest_int': 'every real data vector (ties allowed) of length 2..5 (quick) / 2..7 (thorough), every lag in 1..len-1 '
                          '(percentages chosen so that floor(p*len/100) takes each value)',
          'ADC': 'records whose 99.99% shortest interval is [V_min, V_max] (symbolic, V_min < V_max); 1..3 arbitrary samples of it '
                 '(at most 2 outside the interval, as the 0.01% tail of a 20001-sample record allows); n in {1,2,3} with symbolic V_max, n = 8 (thorough: also 10, one sample; 12-bit obligations exceed the 240 s query budget) with V_max - V_min in {1, 0.37}; both otype values. '
                 'Symbolically shortest_int is replaced by its contract (returns that interval); concrete validation/replay runs use a '
                 '20001-sample record and the real shortest_int.',
          'ADC short records': 'length 2..4 with the real shortest_int in the loop (interval = [min, max])',
          'narrow integer records': 'shortest_int on int16 (thorough: int8, uint8) data of length 2..3 (thorough 4) over the whole value range of the dtype; '
                                    'ADC on int16 records (long: V_min in [-20000, 20000], range 1..12000 counts, samples anywhere in int16; short: 2..3 samples)'}
OUTSIDE = ['data lengths above the bound for the minimal-interval clause', 'percentages with floor(p*len/100) = 0 (empty lag; the code has no such caller)',
           'the fs (resampling) option of ADC: scipy.signal.resample is outside the model',
           '64-bit integer overflow (int64 stays a mathematical integer in the model; int8/int16/int32/uint8/uint16/uint32 arrays wrap as in numpy, '
           'with numpy 1.x value-based casting of scalars); numpy *scalar* arithmetic on narrow integers (np.int16 - np.int16) is not distinguished '
           'from Python int arithmetic']
ASSUMPTIONS = ['floor(len*p/100) is evaluated exactly; for the percentages used the double evaluation agrees (checked in the validation runs)',
               'ADC symbolic runs: shortest_int(record, 99.99) returns the record\'s shortest 99.99% interval (its own clause, decided separately)']
LIMITS = {'max_paths': 4000, 'max_branches': 800}


def _sorted(env, xs):
    xs = list(xs)
    n = len(xs)
    for r in range(n):
        for i in range(r % 2, n - 1, 2):
            a, b = xs[i], xs[i + 1]
            c = a <= b
            xs[i], xs[i + 1] = env.ite(c, a, b), env.ite(c, b, a)
    return xs


def scen_shortest(env, cfg):
    U = env.lib.utils
    n, lag, p = cfg['n'], cfg['lag'], cfg['p']
    xs = env.reals('x', n, -5, 5)
    if cfg.get('ints'):
        # quantised data: integer-valued samples, many exact ties
        ks = [env.int(f'k[{i}]', -2, 2) for i in range(n)]
        xs = [k * env.const('0.5') for k in ks]
    if cfg.get('dtype'):
        # raw integer counts stored in a narrow dtype: every value of that dtype, extremes included
        lo_, hi_ = {'int16': (-32768, 32767), 'int8': (-128, 127), 'uint8': (0, 255)}[cfg['dtype']]
        xs = [env.int(f'k[{i}]', lo_, hi_) for i in range(n)]
        data = env.arr(list(xs), dtype=cfg['dtype'])
    else:
        data = env.arr(list(xs))
    snap = env.snap(data)
    r = U.shortest_int(data, env.const(p))
    import numpy as _rnp
    vals = [v.item() if isinstance(v, _rnp.generic) else v for v in env.items(r)]     # plain numbers: the oracle below must not wrap
    env.check('returns two values', len(vals) == 2)
    lo, hi = vals
    s = _sorted(env, xs)
    width = hi - lo
    env.check('lo <= hi', lo <= hi)
    env.check('lo and hi are order statistics exactly lag = floor(p*len/100) apart',
              env.Or([env.And(env.eq(lo, s[k]), env.eq(hi, s[k + lag])) for k in range(n - lag)]))
    tol = env.const('1e-10')
    env.check('no other pair of order statistics lag apart is closer together',
              env.And([env.le(width, s[k + lag] - s[k] + tol) for k in range(n - lag)]))
    env.check('input untouched', env.untouched(data, snap))


def scen_adc_long(env, cfg):
    """ADC on a long record: x = a few arbitrary samples of it, [Vmin, Vmax] its 99.99% shortest interval."""
    D, T, U = env.lib.devices, env.lib.typing, env.lib.utils
    m, nb, otype, noise = cfg['m'], cfg['bits'], cfg['otype'], cfg['noise']
    idt = cfg.get('dtype')
    if idt:
        # a record of raw integer counts stored in a narrow dtype (numpy keeps that dtype through electrical_signal and through
        # array-with-scalar arithmetic, wrapping modulo 2^16); bound: full-scale range below 2^15 counts
        Vmin = env.int('Vmin', -20000, 20000)
        Vmax = Vmin + env.int('width', 1, 12000)
    elif cfg.get('width'):
        Vmin = env.real('Vmin', -5, 5)
        Vmax = Vmin + env.const(cfg['width'])       # concrete full-scale width keeps the many-level obligations linear
    else:
        Vmin = env.real('Vmin', -5, 5)
        Vmax = env.real('Vmax', -5, 5)
        env.assume(Vmax - Vmin >= env.const('0.001'))
    xs = [env.int(f'x[{i}]', -32768, 32767) for i in range(m)] if idt else env.reals('x', m, -50, 50)
    ws = env.reals('w', m, -1, 1) if noise else None
    tot = [a + b for a, b in zip(xs, ws)] if noise else list(xs)
    outside = [env.Or(v < Vmin, v > Vmax) for v in tot]
    # at most two of the samples lie outside the interval (that is all a 0.01 % tail of 20001 samples can hold)
    if m == 3:
        env.assume(env.Not(env.And(outside)))
    L = 20001
    if env.symbolic:
        pad = []
        saved = D.shortest_int
        D.shortest_int = lambda sig, pct: env.arr([Vmin, Vmax], dtype=float)       # contract stub (see ASSUMPTIONS): two data values, as floats
    else:
        half = (L - m) // 2
        pad = [Vmin] * half + [Vmax] * (L - m - half)
    try:
        sig = list(xs) + pad
        if noise:
            x = T.electrical_signal(sig, list(ws) + [0 * Vmin] * len(pad))
        elif idt:
            x = T.electrical_signal(env.arr(sig, dtype=idt)) if cfg.get('form', 'es') == 'es' else env.arr(sig, dtype=idt)
        elif cfg.get('raw'):
            x = T.electrical_signal(sig)
        else:
            x = T.electrical_signal(sig)
        xsn = [(x.signal, env.snap(x.signal)), (x.noise, env.snap(x.noise))] if hasattr(x, 'signal') else [(x, env.snap(x))]
        y = D.ADC(x, n=nb, otype=otype)
        y_again = D.ADC(x, n=nb, otype=otype)
    finally:
        if env.symbolic:
            D.shortest_int = saved
    env.check('the record handed to ADC (signal and noise) is left untouched', env.And([env.untouched(a, sn) for a, sn in xsn if a is not None]))
    env.check('digitising the same object again gives the same codes', env.eqs(y_again.signal, env.items(y.signal), scale=100))
    out = env.items(y.signal)[:m]
    env.check('output length equals input length', len(env.items(y.signal)) == len(sig) and y.signal.ndim == 1)
    levels = (1 << nb) - 1
    step = (Vmax - Vmin) / levels
    for j in range(m):
        v, o = tot[j], out[j]
        if otype == 'n':
            code = o
        else:
            code = (o - Vmin) / step
            env.check(f'sample {j}: output voltage lies within [V_min, V_max]', env.And(env.le(Vmin, o, 10), env.le(o, Vmax, 10)))
        if env.symbolic:
            isint = env.Or([env.eq(code, c) for c in range(levels + 1)]) if levels <= 7 else None
        elif levels <= 7:
            isint = abs(float(code) - round(float(code))) < 1e-6 and -1e-6 <= float(code) <= levels + 1e-6
        else:
            isint = None
        if isint is not None:
            env.check(f'sample {j}: code is an integer in [0, 2^n-1] (at most 2^n distinct output values)', isint)
        else:
            env.check(f'sample {j}: code lies in [0, 2^n-1]', env.And(env.le(0, code, levels), env.le(code, levels, levels)))
        inr = env.And(v >= Vmin, v <= Vmax)
        err = code * step + Vmin - v
        env.check(f'sample {j}: a sample inside the range moves by at most half a quantisation step',
                  env.Implies(inr, env.And(env.le(err, step / 2, 10), env.le(-err, step / 2, 10))))
        env.check(f'sample {j}: a sample below the range saturates at code 0, above it at code 2^n-1',
                  env.And(env.Implies(v < Vmin, env.eq(code, 0, scale=levels)), env.Implies(v > Vmax, env.eq(code, levels, scale=levels))))


def scen_adc_short(env, cfg):
    """short records with the real shortest_int in the loop: the interval is [min, max]."""
    D, T = env.lib.devices, env.lib.typing
    m, nb, otype = cfg['m'], cfg['bits'], cfg['otype']
    idt = cfg.get('dtype')
    xs = [env.int(f'x[{i}]', -32768, 32767) for i in range(m)] if idt else env.reals('x', m, -5, 5)
    s = _sorted(env, xs)
    env.assume(s[-1] - s[0] >= (1 if idt else env.const('0.001')))
    if idt:
        arg = T.electrical_signal(env.arr(list(xs), dtype=idt)) if cfg['form'] == 'es' else env.arr(list(xs), dtype=idt)
    else:
        arg = T.electrical_signal(list(xs)) if cfg['form'] == 'es' else env.arr(list(xs))
    y = D.ADC(arg, n=nb, otype=otype)
    out = env.items(y.signal)
    levels = (1 << nb) - 1
    Vmin, Vmax = s[0], s[-1]
    step = (Vmax - Vmin) / levels
    env.check('length preserved', len(out) == m)
    conds = []
    for v, o in zip(xs, out):
        code = o if otype == 'n' else (o - Vmin) / step
        err = code * step + Vmin - v
        conds.append(env.And(env.le(0, code, levels), env.le(code, levels, levels), env.le(err, step / 2, 10), env.le(-err, step / 2, 10)))
    env.check('every sample is quantised to a code in [0, 2^n-1] within half a step; extremes map to the end codes', env.And(conds))
    try:
        D.ADC(arg, n=nb, otype='x')
        ok = True
    except ValueError:
        ok = False
    env.check("otype outside {'v','n'} raises ValueError", not ok)


def scen_adc_defined(env, cfg):
    """ADC of any record (constant ones included) is finite: no division by zero on the way."""
    D, T = env.lib.devices, env.lib.typing
    m = cfg['m']
    xs = env.reals('x', m, -5, 5)
    arg = T.electrical_signal(list(xs))
    mk = env.mark()
    try:
        y = D.ADC(arg, n=cfg['bits'], otype=cfg['otype'])
        outs = [y.signal]
    except env.NonFinite:
        outs = None
    env.check_defined('ADC output is finite for every record, constant records included (no division by a zero full-scale range)', outs, since=mk)


def configs(tier):
    q = tier == 'quick'
    out = []
    pcts = {  # (n, lag) -> percent with floor(p*n/100) == lag
    }
    for n in ((2, 3, 4, 5) if q else (2, 3, 4, 5, 6, 7)):
        for lag in range(1, n):
            p = 100.0 * lag / n + (50.0 / n)        # middle of the admissible interval
            if lag == n - 1:
                p = 99.99
            assert int(n * p / 100) == lag
            out.append((f'shortest-n{n}-lag{lag}', scen_shortest, dict(n=n, lag=lag, p=repr(p)), {}))
            if n <= (5 if q else 6):
                out.append((f'shortest-quantised-n{n}-lag{lag}', scen_shortest, dict(n=n, lag=lag, p=repr(p), ints=True), {}))
            if n <= (3 if q else 4):
                for dt in (('int16',) if q else ('int16', 'int8', 'uint8')):
                    out.append((f'shortest-{dt}-n{n}-lag{lag}', scen_shortest, dict(n=n, lag=lag, p=repr(p), dtype=dt), {}))
    for nb in ((1, 3, 8) if q else (1, 2, 3, 8, 10)):
        for otype in ('n', 'v'):
            for m in ((1, 2) if q else (1, 2, 3)):
                if nb <= 3:
                    out.append((f'adc-long-{nb}bit-{otype}-m{m}', scen_adc_long, dict(m=m, bits=nb, otype=otype, noise=False), {'validate': 1}))
                elif nb <= 8 or m == 1:          # 10-bit obligations take ~90 s of solver time per sample: one sample is enough (samples are independent)
                    for wd in ('1', '0.37'):
                        out.append((f'adc-long-{nb}bit-{otype}-m{m}-width{wd}', scen_adc_long,
                                    dict(m=m, bits=nb, otype=otype, noise=False, width=wd), {'validate': 1}))
    for m in ((1,) if q else (1, 2)):
        for nb in ((3,) if q else (2, 3, 4)):
            for form in ('es', 'ndarray'):
                out.append((f'adc-long-int16-{nb}bit-n-m{m}-{form}', scen_adc_long, dict(m=m, bits=nb, otype='n', noise=False, dtype='int16', form=form), {'validate': 1}))
    out.append(('adc-long-noise', scen_adc_long, dict(m=1, bits=3, otype='n', noise=True), {'validate': 1}))
    for nb, otype, m, form in ((2, 'n', 2, 'es'), (3, 'v', 3, 'es'), (4, 'n', 2, 'ndarray')) if q else \
            ((1, 'n', 2, 'es'), (2, 'n', 2, 'es'), (3, 'v', 3, 'es'), (4, 'n', 2, 'ndarray'), (4, 'v', 3, 'es'), (3, 'n', 4, 'es')):
        out.append((f'adc-short-{nb}bit-{otype}-m{m}-{form}', scen_adc_short, dict(m=m, bits=nb, otype=otype, form=form), {}))
    for nb, otype, m, form in ((3, 'n', 2, 'es'), (2, 'v', 3, 'ndarray')) if q else ((3, 'n', 2, 'es'), (2, 'v', 3, 'ndarray'), (3, 'n', 3, 'es'), (1, 'n', 2, 'ndarray')):
        out.append((f'adc-short-int16-{nb}bit-{otype}-m{m}-{form}', scen_adc_short, dict(m=m, bits=nb, otype=otype, form=form, dtype='int16'), {}))
    for m in (2, 3):
        out.append((f'adc-defined-m{m}', scen_adc_defined, dict(m=m, bits=3, otype='v'), {}))
    return out
