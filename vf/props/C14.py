"""C14 — the global grid stays consistent over any call history; devices are pure and seedable."""
import itertools

ID = 'C14'
FUNCTIONS = [('typing', 'global_variables.__call__'), ('typing', 'global_variables.clean'), ('typing', 'global_variables.__init__'),
             ('devices', 'PRBS'), ('devices', 'DAC'), ('devices', 'LASER'), ('devices', 'PM'), ('devices', 'MZM'), ('devices', 'EDFA'),
             ('devices', 'SAMPLER'), ('devices', 'DM'), ('devices', 'FIBER'), ('devices', 'LPF'), ('devices', 'BPF'), ('devices', 'PD'),
             ('devices', 'ADC'), ('ppm', 'PPM_ENCODER'), ('ppm', 'PPM_DECODER'), ('ppm', 'HDD'), ('ppm', 'SDD'),
             ('ppm', 'BER_analizer'), ('ook', 'BER_analizer'), ('ppm', 'DSP')]
BOUNDS = {'call-history differential': 'for the blocks of this property registered in vf/history.py (concrete orders / bandwidths / gains / gv configurations, symbolic samples): the call repeated in a session that first ran it with one parameter or one gv setting changed equals the call in a fresh library instance',
          'grid step': 'one gv(...) call with every subset of {sps, R, fs, wavelength, N} (+ a custom keyword) or one clean(), from an arbitrary '
                       'consistent pre-state: pre sps in {1,2}, pre N in {None,1,2}, new sps in {1,3}, fs = R*k with k in {2,3}, new N in {1,2}; '
                       'R, fs, wavelengths and the custom value are symbolic reals. The invariant is inductive, so histories of any length are covered.',
          'purity sweep': 'each listed public function on symbolic inputs in its smallest configuration (N*sps <= 8; filters on 17-sample records)'}
OUTSIDE = ['GET_EYE and the functions that need it (ook.DSP, ppm.DSP with estimated threshold): KMeans/KDE are outside the model',
           'the purity sweep of the THRESHOLD_EST / theory_BER helpers (pure formulas over their arguments; their values are the subject of C13)',
           'hidden state inside numpy/scipy themselves', 'incommensurate rates (fs/R not an integer) — excluded by the property']
ASSUMPTIONS = ['np.random.seed(s) restarts the draw stream and the same seed replays the same draws (stub contract)',
               'commensurate rates: whenever R and fs are both in force after a call, fs = R*k for an integer k >= 1']
LIMITS = {'max_paths': 300, 'query_timeout_ms': 120000}

C_LIGHT = '299792458'


def _grid(env, N, sps, dt, fs):
    """the harness's own oracle for t, dw, w."""
    n = N * sps
    stop = n * dt
    if n == 1:
        t = [0 * stop]
    else:
        t = [stop * i / (n - 1) for i in range(n - 1)] + [stop]
    dw = 2 * env.pi() * fs / n
    freqs = [(i if i < (n + 1) // 2 else i - n) for i in range(n)]         # fftfreq * n
    sh = freqs[(n + 1) // 2:] + freqs[:(n + 1) // 2]                         # fftshift
    w = [2 * env.pi() * (env.const(str(k)) / n if False else k) / n * fs for k in sh]
    return t, dw, w


def _inv(env, gv, expect_N):
    """Inv(gv): the grid is self-consistent for the values now in force."""
    conds = []
    sps = gv.sps
    conds.append(isinstance(sps, int) and not isinstance(sps, bool) if not hasattr(sps, 't') else True)
    conds.append(sps >= 1)
    conds.append(env.eq(gv.fs, gv.R * sps, scale=1e12))
    conds.append(env.eq(gv.dt * gv.fs, 1, scale=1))
    conds.append(env.eq(gv.f0 * gv.wavelength, env.const(C_LIGHT), scale=1e9))
    return conds


def _grid_conds(env, gv):
    N = gv.N
    if N is None:
        return [gv.t is None, gv.w is None, gv.dw is None]
    sps = int(gv.sps)
    n = N * sps
    t, dw, w = _grid(env, N, sps, gv.dt, gv.fs)
    conds = [gv.t is not None and gv.w is not None]
    if gv.t is None or gv.w is None:
        return conds
    conds.append(len(env.items(gv.t)) == n and len(env.items(gv.w)) == n)
    if len(env.items(gv.t)) != n or len(env.items(gv.w)) != n:
        return conds
    conds.append(env.eq(gv.dw, dw, scale=1e12))
    conds += [env.eq(a, b, scale=1e-3) for a, b in zip(env.items(gv.t), t)]
    conds += [env.eq(a, b, scale=1e13) for a, b in zip(env.items(gv.w), w)]
    return conds


def scen_gv_step(env, cfg):
    T = env.lib.typing
    gv = T.gv
    s0, N0 = cfg['s0'], cfg['N0']
    R0 = env.real('R0', 1e6, 1e11)
    lam0 = env.real('lam0', 1e-6, 2e-6)
    cust = env.real('custom', -5, 5)
    c = env.const(C_LIGHT)
    # arbitrary consistent pre-state, constructed directly (it satisfies Inv by construction)
    gv.sps, gv.R, gv.fs = s0, R0, R0 * s0
    gv.dt = 1 / gv.fs
    gv.wavelength, gv.f0 = lam0, c / lam0
    if N0 is not None:
        t, dw, w = _grid(env, N0, s0, gv.dt, gv.fs)
        gv.N, gv.t, gv.dw, gv.w = N0, env.arr(t), dw, env.arr(w)
    gv.alpha_custom = cust
    env.check('pre-state satisfies the invariant (sanity of the harness)', env.And(_inv(env, gv, N0) + _grid_conds(env, gv)))
    # one transition
    kw = {}
    pat = cfg['pattern']
    Rn = env.real('R1', 1e6, 1e11)
    lam1 = env.real('lam1', 1e-6, 2e-6)
    k = cfg['k']
    if 'sps' in pat:
        kw['sps'] = cfg['s1']
    if 'R' in pat:
        kw['R'] = Rn
    if 'fs' in pat:
        if 'sps' in pat and 'R' in pat:
            kw['fs'] = Rn * cfg['s1']              # consistent triple
        elif 'sps' in pat:
            kw['fs'] = env.real('fs1', 1e6, 1e12)
        elif 'R' in pat:
            kw['fs'] = Rn * k
        else:
            kw['fs'] = R0 * k
    if 'wavelength' in pat:
        kw['wavelength'] = lam1
    if 'N' in pat:
        kw['N'] = cfg['N1']
    if 'custom' in pat:
        kw['beta_custom'] = env.real('custom2', -5, 5)
    r = gv(**kw)
    env.check('gv(...) returns the singleton', r is gv)
    env.check('after the call: fs = R*sps with integer sps >= 1, dt = 1/fs, f0 = c/wavelength', env.And(_inv(env, gv, None)))
    hon = []
    if 'sps' in pat:
        hon.append(env.eq(gv.sps, cfg['s1']))
    if 'R' in pat:
        hon.append(env.eq(gv.R, Rn, scale=1e11))
    if 'fs' in pat:
        hon.append(env.eq(gv.fs, kw['fs'], scale=1e12))
    if 'R' in pat and 'fs' in pat and 'sps' not in pat:
        hon.append(env.eq(gv.sps, k))
    if pat == ('fs',) or (set(pat) - {'wavelength', 'N', 'custom'}) == {'fs'}:
        hon.append(env.eq(gv.sps, k))
    if 'wavelength' in pat:
        hon.append(env.eq(gv.wavelength, lam1, scale=1e-6))
    exp_N = cfg['N1'] if 'N' in pat else N0
    hon.append(gv.N == exp_N)
    env.check('the requested values are the ones now in force (N persists when omitted)', env.And(hon))
    env.check('whenever a slot count N is in effect, t and w have N*sps points on the current fs and dw = 2*pi*fs/(N*sps)',
              env.And(_grid_conds(env, gv)))
    env.check('custom attributes persist across gv(...) calls',
              hasattr(gv, 'alpha_custom') and env.eq(gv.alpha_custom, cust) and
              (('custom' not in pat) or env.eq(gv.beta_custom, kw.get('beta_custom', 0))))
    gv.clean()
    env.check('clean() removes custom attributes and restores every default',
              (not hasattr(gv, 'alpha_custom')) and (not hasattr(gv, 'beta_custom')) and gv.N is None and gv.t is None and gv.w is None
              and gv.dw is None and env.eq(gv.sps, 16) and env.eq(gv.R, 1e9) and env.eq(gv.fs, 16e9) and env.eq(gv.dt * 16e9, 1)
              and env.eq(gv.wavelength, env.const('1550e-9')) and env.eq(gv.f0 * gv.wavelength, c, scale=1e9))


def scen_history(env, cfg):
    """the concrete two-call history behind the stale-grid case, through the public API only."""
    T = env.lib.typing
    gv = T.gv
    R0 = env.real('R0', 1e6, 1e11)
    gv(sps=cfg['s0'], R=R0, N=cfg['N0'])
    gv(sps=cfg['s1'], R=R0)
    env.check('after gv(sps,R,N) then gv(sps\',R): t and w follow the new sps', env.And(_inv(env, gv, None) + _grid_conds(env, gv)))
    gv.clean()
    gv(N=cfg['N0'], sps=cfg['s0'], R=R0)
    gv(fs=R0 * cfg['s1'])
    env.check('after gv(N,...) then gv(fs=R*k): sps = k and the grid follows', env.And(_inv(env, gv, None) + _grid_conds(env, gv) + [env.eq(gv.sps, cfg['s1'])]))


# ------------------------------------------------------------------------------------------------ purity sweep

def _flat(env, r):
    T = env.lib.typing
    out = []
    if r is None:
        return [None]
    if isinstance(r, (tuple, list)):
        for x in r:
            out += _flat(env, x)
        return out
    if isinstance(r, T.binary_sequence):
        return list(env.items(r.data))
    if isinstance(r, T.electrical_signal):
        out = list(env.items(r.signal))
        if r.noise is not None:
            out += list(env.items(r.noise))
        return out
    if hasattr(r, 'ndim') and hasattr(r, 'shape') and getattr(r, 'ndim', 0) > 0:
        return list(env.items(r))
    return [r]


def _arrays(env, r):
    T = env.lib.typing
    if isinstance(r, (tuple, list)):
        return [a for x in r for a in _arrays(env, x)]
    if isinstance(r, T.binary_sequence):
        return [r.data]
    if isinstance(r, T.electrical_signal):
        return [r.signal] + ([r.noise] if r.noise is not None else [])
    if hasattr(r, 'ndim') and getattr(r, 'ndim', 0) > 0:
        return [r]
    return []


def _gv_state(env, gv):
    return {k: v for k, v in gv.__dict__.items()}


def _same_gv(env, gv, before, snaps):
    after = gv.__dict__
    if set(after) != set(before):
        return False
    conds = []
    for k, v in before.items():
        a = after[k]
        if a is v:
            continue
        if v is None or a is None or hasattr(v, 'ndim') and getattr(v, 'ndim', 0) > 0:
            return False
        conds.append(env.eq(a, v))
    conds += [env.untouched(arr, s) for arr, s in snaps]
    return env.And(conds)


def _cx_field(env, T, n, pol, noise, name='E'):
    S = [env.cplxs(f'{name}.s{p}', n, -3, 3) for p in range(pol)]
    N = [env.cplxs(f'{name}.n{p}', n, -3, 3) for p in range(pol)] if noise else None
    if pol == 1:
        return T.optical_signal(list(S[0]), list(N[0]) if noise else None)
    return T.optical_signal([list(r) for r in S], [list(r) for r in N] if noise else None)


def _cases(env):
    """name -> (setup returning (args tuple, callable)); every callable is a public library function."""
    L = env.lib
    T, D, P, O, U = L.typing, L.devices, L.ppm, L.ook, L.utils
    np = env.np
    one = env.const('1e9')

    def c_prbs():
        return (7, 6, env.bv('seed', 64)), lambda a: D.PRBS(a[0], a[1], a[2], return_seed=True)

    def c_dac(shape):
        def f():
            T.gv(sps=2, R=one)
            b = T.binary_sequence(list(env.bits('b', 2)))
            return (b, env.real('bias', -5, 5), env.real('Vout', -5, 5)), lambda a: D.DAC(a[0], bias=a[1], Vout=a[2], pulse_shape=shape)
        return f

    def c_laser():
        T.gv(sps=2, R=one)
        t = env.arr([env.real('t0', 0, 1e-6), env.real('t1', 0, 1e-6)])
        return (t, env.real('p', -10, 10), env.real('lw', 0, 1e6), env.real('df', -1e9, 1e9)), lambda a: D.LASER(a[0], a[1], lw=a[2], df=a[3])

    def c_pm():
        x = _cx_field(env, T, 2, 1, True)
        u = env.arr(list(env.reals('u', 2, -5, 5)))
        return (x, u, env.real('Vpi', 1, 5)), lambda a: D.PM(a[0], a[1], a[2])

    def c_mzm():
        x = _cx_field(env, T, 1, 2, True)
        u = T.electrical_signal([env.real('u', -5, 5)])
        return (x, u, env.real('bias', -5, 5), env.real('Vpi', 1, 5)), lambda a: D.MZM(a[0], a[1], bias=a[2], Vpi=a[3], loss_dB=3, ER_dB=20)

    def c_edfa():
        T.gv(sps=2, R=one)
        x = _cx_field(env, T, 1, 1, True)
        return (x, env.real('G', 0, 30), env.real('NF', 3, 8)), lambda a: D.EDFA(a[0], a[1], a[2])

    def c_sampler(noise=True):
        def f():
            T.gv(sps=2, R=one)
            x = T.electrical_signal(list(env.reals('s', 4, -3, 3)), list(env.reals('w', 4, -3, 3)) if noise else None)
            return (x, 1), lambda a: D.SAMPLER(a[0], a[1])
        return f

    def c_sampler_dac():
        T.gv(sps=2, R=one)
        x = D.DAC(list(env.bits('b', 2)), Vout=env.real('Vout', 0.5, 3))
        return (x, 1), lambda a: (D.SAMPLER(a[0], a[1]), a[0][1:], a[0].copy())

    def c_slices():
        x = T.electrical_signal(env.arr(list(env.reals('s', 4, -3, 3))))
        y = T.optical_signal(env.arr(list(env.cplxs('E', 3, -3, 3))))
        return (x, y), lambda a: (a[0][1:3], a[0].copy(), a[0][::2], a[1][0:2], a[1].copy())

    def c_enc():
        b = env.arr(list(env.bits('b', 4)), dtype=bool)
        return (b, 4), lambda a: P.PPM_ENCODER(a[0], a[1])

    def c_dec():
        b = P.PPM_ENCODER(list(env.bits('b', 2)), 4)
        return (b, 4), lambda a: P.PPM_DECODER(a[0], a[1])

    def c_hdd():
        x = env.arr(list(env.bits('x', 4)), dtype=bool)
        return (x, 2), lambda a: P.HDD(a[0], a[1])

    def c_sdd():
        T.gv(sps=2, R=one)
        x = T.electrical_signal(list(env.reals('s', 4, -3, 3)), list(env.reals('w', 4, -3, 3)))
        return (x, 2), lambda a: P.SDD(a[0], a[1])

    def c_ber(mod):
        def f():
            tx = T.binary_sequence(list(env.bits('tx', 3)))
            rx = T.binary_sequence(list(env.bits('rx', 3)))
            return (tx, rx), lambda a: mod.BER_analizer('counter', Tx=a[0], Rx=a[1])
        return f

    def c_dm():
        T.gv(sps=2, R=one)
        x = _cx_field(env, T, 2, 1, True)
        return (x, env.real('D', -50, 50)), lambda a: D.DM(a[0], a[1])

    def c_fiber():
        T.gv(sps=2, R=one)
        x = _cx_field(env, T, 2, 2, True)
        return (x, env.real('L', 1, 50), env.real('alpha', 0, 0.5), env.real('b2', -25, 25)), \
            lambda a: D.FIBER(a[0], a[1], alpha=a[2], beta_2=a[3])

    def c_lpf():
        T.gv(sps=2, R=one)
        x = T.electrical_signal(list(env.reals('s', 17, -3, 3)), list(env.reals('w', 17, -3, 3)))
        return (x, env.const('0.4e9')), lambda a: D.LPF(a[0], a[1])

    def c_bpf():
        T.gv(sps=2, R=one)
        x = _cx_field(env, T, 17, 1, False)
        return (x, env.const('0.8e9')), lambda a: D.BPF(a[0], a[1])

    def c_pd():
        T.gv(sps=2, R=one)
        x = _cx_field(env, T, 17, 1, True)
        return (x, env.const('0.5e9'), env.real('r', 0.1, 1), env.real('Rl', 10, 100)), lambda a: D.PD(a[0], a[1], r=a[2], R_load=a[3])

    def c_adc():
        x = T.electrical_signal(list(env.reals('s', 3, -3, 3)), list(env.reals('w', 3, -1, 1)))
        return (x,), lambda a: D.ADC(a[0], n=2, otype='v')

    def c_dsp(decision):
        def f():
            T.gv(sps=2, R=one)
            x = T.electrical_signal(list(env.reals('s', 8, 0, 3)), list(env.reals('w', 8, -0.1, 0.1)))
            thr = env.real('thr', 0.5, 2)
            if decision == 'soft':
                return (x,), lambda a: P.DSP(a[0], 2, decision='soft')
            return (x, thr), lambda a: P.DSP(a[0], 2, decision='hard', threshold=a[1])
        return f

    def c_utils():
        x = env.real('x', 0.1, 10)
        arr = env.arr([x, x + 1])
        return (arr,), lambda a: (U.db(a[0]), U.idb(a[0]), U.Q(a[0]), U.dbm(a[0]), U.idbm(a[0]))

    return {'PRBS': c_prbs, 'DAC-nrz': c_dac('nrz'), 'DAC-rz': c_dac('rz'), 'LASER': c_laser, 'PM': c_pm, 'MZM': c_mzm, 'EDFA': c_edfa,
            'SAMPLER': c_sampler(True), 'SAMPLER-clean': c_sampler(False), 'SAMPLER-of-DAC': c_sampler_dac, 'slices-clean': c_slices, 'PPM_ENCODER': c_enc, 'PPM_DECODER': c_dec, 'HDD': c_hdd, 'SDD': c_sdd,
            'ook.BER_analizer': c_ber(O), 'ppm.BER_analizer': c_ber(P), 'DM': c_dm, 'FIBER': c_fiber, 'LPF': c_lpf, 'BPF': c_bpf, 'PD': c_pd,
            'utils-dB-Q': c_utils, 'ADC': c_adc, 'ppm.DSP-soft': c_dsp('soft'), 'ppm.DSP-hard-threshold': c_dsp('hard')}


def scen_purity(env, cfg):
    L = env.lib
    T, D = L.typing, L.devices
    gv = T.gv
    np = env.np
    args, call = _cases(env)[cfg['fn']]()
    in_arrays = [a for x in args for a in _arrays(env, x)]
    snaps = [(a, env.snap(a)) for a in in_arrays]
    gv_arrays = [(v, env.snap(v)) for v in gv.__dict__.values() if hasattr(v, 'ndim') and getattr(v, 'ndim', 0) > 0]
    before = _gv_state(env, gv)
    np.random.seed(7)
    r1 = call(args)
    env.check('the function does not modify gv', _same_gv(env, gv, before, gv_arrays))
    env.check('the function does not modify the sample data of its arguments', env.And([env.untouched(a, s) for a, s in snaps]))
    outs = _arrays(env, r1)
    env.check('outputs never alias input buffers', not any(env.shares(o, a) for o in outs for a in in_arrays))
    # something else happens in between (deterministic blocks must not care, seeded blocks are re-seeded)
    D.DAC([0, 1, 1], Vout=env.const('2.0'))
    D.PRBS(7, 5, 3)
    np.random.seed(7)
    r2 = call(args)
    f1, f2 = _flat(env, r1), _flat(env, r2)
    env.check('repeating the call after np.random.seed(s), with other calls in between, reproduces the output bit-for-bit',
              len(f1) == len(f2) and env.And([(a is b) or (a is None and b is None) or env.eq(a, b) if not (hasattr(a, 'w') or hasattr(b, 'w')) else a == b
                                                for a, b in zip(f1, f2)]))
    env.check('... and still leaves gv and the arguments untouched',
              env.And([_same_gv(env, gv, before, gv_arrays)] + [env.untouched(a, s) for a, s in snaps]))
    if env.impl == 'model':
        n1 = [e for e in env.events('draw')]
        half = len(n1) // 2
        env.check('the same draws are requested in the same order on the repeat', [e[1] for e in n1[:half]] == [e[1] for e in n1[half:]])


PATTERN_KEYS = ('sps', 'R', 'fs', 'wavelength', 'N')


def configs(tier):
    q = tier == 'quick'
    out = []
    pats = []
    for r in range(0, 6):
        for comb in itertools.combinations(PATTERN_KEYS, r):
            pats.append(comb)
    pre = [(2, None), (2, 2), (1, 1)] if q else [(1, None), (2, None), (3, None), (1, 1), (1, 2), (1, 3), (2, 1), (2, 2), (3, 1), (3, 2)]
    for s0, N0 in pre:
        for pat in pats:
            for s1, k, N1 in ([(3, 3, 1)] if q else [(3, 3, 1), (1, 2, 2)]):
                if q and (s0, N0) == (1, 1) and len(pat) not in (0, 1, 5):
                    continue
                name = f'gv-step-pre(sps{s0},N{N0})-call({",".join(pat) or "nothing"})-s{s1}k{k}N{N1}'
                out.append((name, scen_gv_step, dict(s0=s0, N0=N0, pattern=pat, s1=s1, k=k, N1=N1), {}))
        out.append((f'gv-step-pre(sps{s0},N{N0})-call(custom)', scen_gv_step, dict(s0=s0, N0=N0, pattern=('custom',), s1=3, k=3, N1=1), {}))
    out.append(('gv-history-stale-grid', scen_history, dict(s0=2, N0=2, s1=3), {}))
    fns = ['PRBS', 'DAC-nrz', 'DAC-rz', 'LASER', 'PM', 'MZM', 'EDFA', 'SAMPLER', 'SAMPLER-clean', 'SAMPLER-of-DAC', 'slices-clean', 'DM', 'FIBER', 'LPF', 'BPF', 'PD', 'PPM_ENCODER', 'PPM_DECODER', 'HDD', 'SDD',
           'ook.BER_analizer', 'ppm.BER_analizer', 'utils-dB-Q', 'ADC', 'ppm.DSP-soft', 'ppm.DSP-hard-threshold']
    for fn in fns:
        out.append((f'purity-{fn}', scen_purity, dict(fn=fn), {}))
    # deterministic blocks give identical results whatever was called before: the filters (and through them PD, MZM(BW=), EDFA(BW=))
    # must follow the sampling rate now in gv although the same (order, bandwidth) was designed under another rate earlier
    from vf.props import C11 as _C11
    for kind in ('LPF', 'BPF'):
        out.append((f'history-{kind}-after-gv-reconfigured', _C11.scen_history, dict(kind=kind), {'validate': 1}))
    from vf import history as _history        # call-history differential of this property's blocks (vf/history.py)
    out += _history.configs_for('C14')
    return out
