"""C09 — PD is a square-law detector with unit DC gain and the documented noise powers."""
ID = 'C09'
FUNCTIONS = [('devices', 'PD'), ('devices', 'LPF'), ('typing', 'electrical_signal.abs'), ('typing', 'electrical_signal.power')]
BOUNDS = {'call-history differential': 'for the blocks of this property registered in vf/history.py (concrete orders / bandwidths / gains / gv configurations, symbolic samples): the call repeated in a session that first ran it with one parameter or one gv setting changed equals the call in a fresh library instance',
          'records': '17 (quick) / 20 (thorough) symbolic complex samples per polarisation (17 is the shortest record the 4th-order filter accepts), one and two polarisations, '
                     'with and without optical noise',
          'parameters': 'r in (0,1], T >= 0, R_load > 0, i_dark >= 0, Fn >= 0 symbolic; BW/fs in {0.25} (quick) / {0.1, 0.25, 0.4} (thorough): '
                        'concrete Bessel design, filter matrix from the real scipy',
          'selections': 'all seven include_noise values, lower/upper/mixed case; the thermal and shot draws are symbolic'}
OUTSIDE = ['measured variance after filtering times the noise-equivalent bandwidth: a statement about sample statistics; the clause is decided as '
           '"the thermal/shot terms are zero-mean normal draws whose scale argument squared equals the documented variance"']
ASSUMPTIONS = ['np.random.normal(loc, scale, n) returns loc + scale*d for n independent standard-normal draws d (stub records loc, scale, n)',
               'sosfiltfilt is linear in its input (matrix read off the real scipy)']
LIMITS = {'max_paths': 60, 'query_timeout_ms': 120000}

KB = '1.380649e-23'
QE = '1.602176634e-19'
SELECT = {'ase-only': ('ase',), 'thermal-only': ('thermal',), 'shot-only': ('shot',), 'ase-thermal': ('ase', 'thermal'),
          'ase-shot': ('ase', 'shot'), 'thermal-shot': ('thermal', 'shot'), 'all': ('ase', 'thermal', 'shot')}


def _field(env, n, pol, noise, name='E'):
    T = env.lib.typing
    S = [env.cplxs(f'{name}.s{p}', n, -2, 2) for p in range(pol)]
    N = [env.cplxs(f'{name}.n{p}', n, -1, 1) for p in range(pol)] if noise else None
    return _mk(env, S, N), S, N


def _mk(env, S, N):
    T = env.lib.typing
    if len(S) == 1:
        return T.optical_signal(list(S[0]), list(N[0]) if N else None)
    return T.optical_signal([list(r) for r in S], [list(r) for r in N] if N else None)


def _setup(env, ratio):
    T = env.lib.typing
    fs = 2e9
    T.gv(sps=2, R=env.const('1e9'))
    BW = ratio * fs
    from vf.props.C11 import _ref_matrix
    return fs, BW


def _filt(env, M, xs):
    from vf.props.C11 import _apply
    return _apply(env, M, xs)


def scen_signal(env, cfg):
    D = env.lib.devices
    L, pol, noise, ratio = cfg['L'], cfg['pol'], cfg['noise'], cfg['ratio']
    fs, BW = _setup(env, ratio)
    from vf.props.C11 import _ref_matrix
    M, _ = _ref_matrix(4, BW, fs, L)
    x, S, N = _field(env, L, pol, noise)
    snaps = [(x.signal, env.snap(x.signal)), (x.noise, env.snap(x.noise))]
    r = env.real('r', 0.05, 1)
    Rl = env.real('R_load', 1, 1e4)
    y = D.PD(x, env.num(BW), r=r, R_load=Rl, include_noise='ase-only', i_dark=env.real('i_dark', 0, 1e-6))
    i_sig = [Rl * r * sum(env.abs2(S[p][k]) for p in range(pol)) for k in range(L)]
    env.check('signal part = low-pass filtered R_load*r*(|Ex|^2+|Ey|^2), deterministic (no random draw enters it)',
              env.And([env.eq(u, v, scale=1e5) for u, v in zip(env.items(y.signal), _filt(env, M, i_sig))]))
    env.check('output length equals input length; electrical signal with a noise component', len(env.items(y.signal)) == L and y.noise is not None)
    env.check('input untouched', env.And([env.untouched(a, s) for a, s in snaps]))
    # invariance: per-sample phase rotation (c_k + j s_k with c^2+s^2 = 1) and unitary polarisation rotation
    cs = [(env.real(f'c[{k}]', -1, 1), env.real(f's[{k}]', -1, 1)) for k in range(L)]
    for c, s_ in cs:
        env.assume(env.eq(c * c + s_ * s_, 1) if env.symbolic else True)
    if not env.symbolic:
        import math
        cs = [(c / math.hypot(c, s_), s_ / math.hypot(c, s_)) if math.hypot(c, s_) > 1e-3 else (1.0, 0.0) for c, s_ in cs]
        if env.impl == 'model':
            cs = [(env.num(c), env.num(s_)) for c, s_ in cs]
    S2 = [[S[p][k] * env.cx(cs[k][0], cs[k][1]) for k in range(L)] for p in range(pol)]
    y2 = D.PD(_mk(env, S2, None), env.num(BW), r=r, R_load=Rl, include_noise='ase-only', i_dark=0)
    y1 = D.PD(_mk(env, S, None), env.num(BW), r=r, R_load=Rl, include_noise='ase-only', i_dark=0)
    env.check('output unchanged by any phase rotation of the field', env.eqs(y2.signal, env.items(y1.signal), scale=1e5))
    if pol == 2:
        a = env.cplx('ua', -1, 1)
        b = env.cplx('ub', -1, 1)
        if env.symbolic:
            env.assume(env.eq(env.abs2(a) + env.abs2(b), 1))
        else:
            import math
            nrm = math.sqrt(float(env.abs2(a) + env.abs2(b)))
            env.assume(nrm > 1e-3)
            a, b = a / nrm, b / nrm
        # U = [[a, b], [-conj(b), conj(a)]]
        S3 = [[a * S[0][k] + b * S[1][k] for k in range(L)], [env.conj(a) * S[1][k] - env.conj(b) * S[0][k] for k in range(L)]]
        y3 = D.PD(_mk(env, S3, None), env.num(BW), r=r, R_load=Rl, include_noise='ase-only', i_dark=0)
        env.check('output unchanged by a unitary rotation of the polarisation state', env.eqs(y3.signal, env.items(y1.signal), scale=1e5))
    r2 = env.real('r2', 0.05, 1)
    Rl2 = env.real('R_load2', 1, 1e4)
    kap = env.real('kappa', 0.1, 3)
    y4 = D.PD(_mk(env, [[v * kap for v in row] for row in S], None), env.num(BW), r=r2, R_load=Rl2, include_noise='ase-only', i_dark=0)
    env.check('linear in r and R_load, quadratic in the field amplitude',
              env.And([env.eq(u * (r * Rl), v * (r2 * Rl2 * kap * kap), scale=1e9) for u, v in zip(env.items(y4.signal), env.items(y1.signal))]))


def scen_cw(env, cfg):
    D = env.lib.devices
    L, pol, ratio = cfg['L'], cfg['pol'], cfg['ratio']
    fs, BW = _setup(env, ratio)
    E = [env.cplx(f'E{p}', -3, 3) for p in range(pol)]
    r = env.real('r', 0.05, 1)
    Rl = env.real('R_load', 1, 1e4)
    x = _mk(env, [[E[p]] * L for p in range(pol)], None)
    y = D.PD(x, env.num(BW), r=r, R_load=Rl, include_noise='ase-only', i_dark=0)
    v = r * sum(env.abs2(e) for e in E) * Rl
    tol = v * env.const('1e-9') + env.const('1e-15')
    env.check('a CW field of power P gives the constant voltage r*P*R_load (unit DC gain)',
              env.And([env.And(env.le(u - v, tol, 1e5), env.le(v - u, tol, 1e5)) for u in env.items(y.signal)]))
    env.check('noise-free field and no dark current: the noise part is zero', env.eqs(y.noise, [0] * L, scale=1))


def scen_noise(env, cfg):
    D, T = env.lib.devices, env.lib.typing
    L, pol, onoise, ratio, sel = cfg['L'], cfg['pol'], cfg['noise'], cfg['ratio'], cfg['sel']
    fs, BW = _setup(env, ratio)
    from vf.props.C11 import _ref_matrix
    M, _ = _ref_matrix(4, BW, fs, L)
    x, S, N = _field(env, L, pol, onoise)
    r = env.real('r', 0.05, 1)
    Rl = env.real('R_load', 1, 1e4)
    Tk = env.real('T', 0, 500)
    idk = env.real('i_dark', 0, 0.01)
    Fn = env.real('Fn', 0, 10)
    y = D.PD(x, env.num(BW), r=r, T=Tk, R_load=Rl, include_noise=cfg.get('case', sel), i_dark=idk, Fn=Fn)
    terms = SELECT[sel]
    fsr = env.num(fs)
    var_T = 4 * env.const(KB) * Tk * fsr / 2 * env.pow10(Fn / 10) / Rl
    mean_sig = sum(r * sum(env.abs2(S[p][k]) for p in range(pol)) for k in range(L)) / L
    mean_ase = (r * sum(sum(env.abs2(N[p][k]) for k in range(L)) / L for p in range(pol))) if onoise else 0
    var_S = 2 * env.const(QE) * (mean_sig + mean_ase + idk) * fsr / 2
    # draws in call order: thermal first, then shot
    pre = [idk + 0 * r for _ in range(L)]
    di = 0
    if env.impl == 'model' and env.symbolic:
        calls = [e[1] for e in env.events('rand_call')]
        want = [t for t in ('thermal', 'shot') if t in terms]
        env.check('exactly the selected Gaussian terms are drawn: one normal(0, sigma, len) call each (thermal, then shot)',
                  len(calls) == len(want) and all(c[0] == 'normal' and c[3] == L for c in calls) and env.And([env.eq(c[1], 0) for c in calls]))
        import z3
        from vf.core import SB
        nd = len(want) * L
        # replay steering only: sizeable draws and parameters, so that a wrong variance shows up in the noise samples of the replay
        steer = [(env.draw(k, 'normal') >= 1).t for k in range(nd)] + [(Tk >= 100).t, (r >= 0.5).t, (Rl >= 100).t] + \
                [(env.re(S[p][k]) >= 1).t for p in range(pol) for k in range(L)]
        for t, c in zip(want, calls):
            sc = c[2]
            if t == 'thermal':
                cnd = env.eq(sc * sc, var_T, scale=1e-12)
                nm = 'thermal term: zero-mean Gaussian of variance 4*kB*T*Fn*B/R_load over B = fs/2 [A^2]'
            else:
                cnd = env.eq(sc * sc, var_S, scale=1e-12)
                nm = 'shot term: zero-mean Gaussian of variance 2*e*(r*(mean signal power + mean optical-noise power) + i_dark)*B, B = fs/2 [A^2]'
            if isinstance(cnd, SB):
                cnd = SB(cnd.t, cnd.rt, z3.And(z3.Not(cnd.t), *steer))
            env.check(nm, cnd)
    sig_T, sig_S = env.sqrt(var_T), env.sqrt(var_S)
    if 'thermal' in terms:
        for k in range(L):
            pre[k] = pre[k] + sig_T * env.draw(di + k, 'normal')
        di += L
    if 'shot' in terms:
        for k in range(L):
            pre[k] = pre[k] + sig_S * env.draw(di + k, 'normal')
        di += L
    if 'ase' in terms and onoise:
        for k in range(L):
            beat = sum(2 * env.re(S[p][k] * env.conj(N[p][k])) + env.abs2(N[p][k]) for p in range(pol))
            pre[k] = pre[k] + r * beat
    exp = _filt(env, M, [v * Rl for v in pre])
    env.check('noise part = filtered R_load*(exactly the selected terms: signal-noise and noise-noise beating, thermal, shot) + the dark-current offset',
              env.And([env.eq(u, v) for u, v in zip(env.items(y.noise), exp)]))


def scen_validation(env, cfg):
    D = env.lib.devices
    fs, BW = _setup(env, 0.25)
    x, S, N = _field(env, 17, 1, False)
    kind = cfg['kind']
    if kind == 'r':
        r = env.real('r', -1, 2)
        try:
            D.PD(x, env.num(BW), r=r, include_noise='ase-only')
            ok = True
        except ValueError:
            ok = False
        env.check('r accepted iff 0 < r <= 1', env.Iff(ok, env.And(r > 0, r <= 1)))
    elif kind == 'T':
        t = env.real('T', -5, 5)
        try:
            D.PD(x, env.num(BW), T=t, include_noise='ase-only')
            ok = True
        except ValueError:
            ok = False
        env.check('T accepted iff T >= 0', env.Iff(ok, t >= 0))
    elif kind == 'R_load':
        t = env.real('Rl', -5, 5)
        env.assume(env.Or(t <= -0.001, t >= 0.001))
        try:
            D.PD(x, env.num(BW), R_load=t, include_noise='ase-only')
            ok = True
        except ValueError:
            ok = False
        env.check('negative R_load rejected, positive accepted', env.Iff(ok, t > 0))
    else:
        for kw, exc in ((dict(r='1'), TypeError), (dict(T=[300]), TypeError), (dict(R_load=None), TypeError), (dict(include_noise=3), TypeError),
                        (dict(include_noise='none'), ValueError), (dict(include_noise='ase'), ValueError), (dict(include_noise=''), ValueError)):
            try:
                D.PD(x, env.num(BW), **kw)
                ok = True
            except exc:
                ok = False
            env.check(f'{kw} raises {exc.__name__}', not ok)
        try:
            D.PD(env.arr([1.0, 2.0]), env.num(BW))
            ok = True
        except TypeError:
            ok = False
        env.check('non-optical input raises TypeError', not ok)


def configs(tier):
    q = tier == 'quick'
    out = []
    ratios = (0.25,) if q else (0.1, 0.25, 0.4)
    L = 17 if q else 20
    for ratio in ratios:
        for pol in (1, 2):
            for noise in (False, True):
                if q and pol == 2 and not noise:
                    continue
                out.append((f'signal-pol{pol}-{"noise" if noise else "clean"}-bw{ratio}', scen_signal, dict(L=L, pol=pol, noise=noise, ratio=ratio), {'validate': 1}))
            out.append((f'cw-pol{pol}-bw{ratio}', scen_cw, dict(L=L, pol=pol, ratio=ratio), {'validate': 1}))
    for sel in SELECT:
        for pol, noise in ((1, True), (2, True), (1, False)):
            if q and (pol, noise) != (1, True) and sel not in ('all', 'ase-only'):
                continue
            out.append((f'noise-{sel}-pol{pol}-{"opt" if noise else "noopt"}', scen_noise, dict(L=L, pol=pol, noise=noise, ratio=0.25, sel=sel), {'validate': 1}))
    for sel, case in (('all', 'ALL'), ('ase-shot', 'Ase-Shot'), ('thermal-only', 'THERMAL-only')):
        out.append((f'noise-case-{case}', scen_noise, dict(L=L, pol=1, noise=True, ratio=0.25, sel=sel, case=case), {'validate': 1}))
    for kind in ('r', 'T', 'R_load', 'types'):
        out.append((f'validation-{kind}', scen_validation, dict(kind=kind), {}))
    from vf import history as _history        # call-history differential of this property's blocks (vf/history.py)
    out += _history.configs_for('C09')
    return out
