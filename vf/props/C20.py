"""C20 — PPG driver emits only in-range commands; memory round-trips; SYNC aligns."""
import re as _re

ID = 'C20'
FUNCTIONS = [('lab', 'PPG3204._check_channels'), ('lab', 'PPG3204._query'), ('lab', 'PPG3204.set_patt_len'), ('lab', 'PPG3204.set_freq'),
             ('lab', 'PPG3204.set_skew'), ('lab', 'PPG3204.set_output_voltage'), ('lab', 'PPG3204.set_offset'),
             ('lab', 'PPG3204.set_prbs_order'), ('lab', 'PPG3204.set_bits_shift'), ('lab', 'PPG3204.set_mode'),
             ('lab', 'PPG3204.enable_outputs'), ('lab', 'PPG3204.disable_outputs'), ('lab', 'PPG3204.set_data'), ('lab', 'PPG3204.get_data'),
             ('lab', 'PPG3204.__call__'), ('lab', 'SYNC'), ('utils', 'nearest')]
BOUNDS = {'setters': 'requested value symbolic (scalar, and per-channel lists of 1..4 symbolic entries); channel selection None / symbolic int / '
                     'list of 1..5 symbolic ints in -3..9',
          'set_data': 'MAX_CHUNK_LEN as shipped (1024) with concrete bit patterns of lengths {1,1023,1024,1025,2049}; class attribute shrunk to 4 '
                      'with every length 1..13 and symbolic bits; symbolic start address',
          'get_data': 'size symbolic in [1, 3*1024) (chunk count forked, remainder symbolic) for the request structure; returned data for '
                      'MAX_CHUNK_LEN shrunk to 4, sizes 1..13, symbolic memory',
          'SYNC': 'patterns 1011000 / 1101 at sps in {1,2}; every delay 0 <= d < pattern length; (a, c) in {(1,0), (0.5,0.25)}; symbolic noise |e_k| <= 2% of a on a window of 4 consecutive samples (window positions enumerated), zero elsewhere'}
OUTSIDE = ['other SYNC patterns and larger noise', 'the real VISA transport (a simulated instrument records the commands)',
           'MAX_CHUNK_LEN = 1024 with symbolic bits (the chunk logic reads the constant only through self.MAX_CHUNK_LEN; the shrink is stated)']
ASSUMPTIONS = ['SYNC: received waveform = a*pattern + c + e with a in [0.5,4], c in [0,1] (a negative DC level makes the "max < 3*std" sanity test of SYNC reject short patterns; not claimed)',
               'printed numbers are compared with the limits to half a unit of their last printed digit (the commands carry rounded text)',
               'the simulated instrument answers writes with "\\n" and DATA? queries with an IEEE-488.2 block of the requested length']
LIMITS = {'max_paths': 3000, 'max_branches': 1500, 'max_concretise': 40}

TOK = _re.compile(r'(⟦\d+⟧)')


class Stop(BaseException):
    pass


class FakeInst:
    """simulated instrument: records every command; answers DATA? from a per-channel memory."""

    def __init__(self, env, memory=None, stop_on_symbolic=False):
        self.env, self.log, self.memory, self.stop = env, [], memory or {}, stop_on_symbolic
        self.requests = []

    def query(self, cmd):
        self.log.append(cmd)
        m = _re.fullmatch(r':DIG(.+):PATT:DATA\? (.+),(.+)', cmd)
        if m:
            ch, addr, cnt = (self._val(x) for x in m.groups())
            self.requests.append((ch, addr, cnt))
            if not isinstance(cnt, int):
                if self.stop:
                    raise Stop()
                cnt = int(cnt)
            if self.stop:
                bits = [0] * cnt                    # request-structure scenario: contents irrelevant, keep addresses symbolic
            else:
                ch_i, addr_i = int(ch), int(addr)
                bits = [self.memory[ch_i][addr_i - 1 + j] for j in range(cnt)]
            n = len(bits)
            txt = f'#{len(str(n))}{n}' + ''.join(str(b) if isinstance(b, int) else '?' for b in bits) + '\n'
            if '?' in txt:
                return SymBlock(txt, bits)          # symbolic memory: the parsed form of the payload is the bits themselves
            return txt
        return '\n'

    def _val(self, txt):
        env = self.env
        if env.impl == 'model' and TOK.fullmatch(txt):
            return next(e[1][1] for e in env.events('fmt') if e[1][0] == txt)
        try:
            return int(txt)
        except ValueError:
            return float(txt)


def parts(env, cmd):
    """split a command into literal text and values: [(kind, x)], kind in {'lit','val'}; val -> (value, spec)."""
    out = []
    if env.impl == 'model':
        for p in TOK.split(cmd):
            if not p:
                continue
            if TOK.fullmatch(p):
                ev = next(e[1] for e in env.events('fmt') if e[1][0] == p)
                out.append(('val', (ev[1], ev[2])))
            else:
                out.append(('lit', p))
        return out
    return [('lit', cmd)]


def parse(env, cmd, pattern):
    """match cmd against pattern where each {} stands for one number; returns the list of values (terms or floats) or None."""
    if env.impl == 'model':
        ps = parts(env, cmd)
        # rebuild: literals as is, values as {}
        skeleton = ''.join(p[1] if p[0] == 'lit' else '\0' for p in ps)
        vals = [p[1][0] for p in ps if p[0] == 'val']
        rx = _re.escape(pattern).replace(r'\{\}', r'(\0|-?[0-9.]+(?:e[-+]?[0-9]+)?)')
        m = _re.fullmatch(rx, skeleton)
        if not m:
            return None
        out, vi = [], 0
        for g in m.groups():
            if g == '\0':
                out.append(vals[vi])
                vi += 1
            else:
                out.append(int(g) if _re.fullmatch(r'-?\d+', g) else float(g))
        return out
    rx = _re.escape(pattern).replace(r'\{\}', r'(-?[0-9.]+(?:e[-+]?[0-9]+)?)')
    m = _re.fullmatch(rx, cmd)
    if not m:
        return None
    return [int(g) if _re.fullmatch(r'-?\d+', g) else float(g) for g in m.groups()]


def driver(env, inst=None):
    L = env.lib.lab
    p = L.PPG3204.__new__(L.PPG3204)
    if inst is not None:
        p.inst = inst
    return p


def _chs(env, kind):
    if kind == 'none':
        return None, [1, 2, 3, 4]
    if kind == 'int':
        c = env.int('ch', -3, 9)
        return c, None
    n = int(kind[4:])
    cs = [env.int(f'ch[{i}]', -3, 9) for i in range(n)]
    return list(cs), None


SETTERS = {
    # name: (pattern, lo, hi, half-ulp of the printed text, integer?)
    'set_patt_len': (':DIG{}:PATT:LENG {}', 2, 2 ** 21, 0, True),
    'set_skew': (':SKEW{} {}', -25e-12, 25e-12, 1e-18, False),
    'set_output_voltage': (':VOLT{}:POS {}v', 0.3, 2, 0.05, False),
    'set_bits_shift': (':DIG{}:PATT:BSH {}', None, None, 0, True),
}


def scen_setter(env, cfg):
    fn, chk, vk = cfg['fn'], cfg['chs'], cfg['val']
    inst = FakeInst(env)
    p = driver(env, inst)
    CHs, _ = _chs(env, chk)
    pattern, lo, hi, ulp, integer = SETTERS[fn]
    rng = {'set_patt_len': (-10, 2 ** 22), 'set_skew': (-1e-10, 1e-10), 'set_output_voltage': (-1, 5), 'set_bits_shift': (-5, 5)}[fn]
    mk = (lambda nm: env.int(nm, *rng)) if integer else (lambda nm: env.real(nm, *rng))
    if vk == 'scalar':
        v = mk('v')
        vals = None
    else:
        vals = [mk(f'v[{i}]') for i in range(int(vk[4:]))]
        v = list(vals)
    w0 = len(env.events('warn'))
    try:
        getattr(p, fn)(v, CHs)
        raised = None
    except Exception as e:          # noqa: the property says out-of-range requests never raise
        raised = f'{type(e).__name__}: {e}'
    env.check('no exception whatever value is requested (clamp and warn instead)', raised is None, raised=raised)
    if raised is not None:
        return
    nwarn = len(env.events('warn')) - w0
    conds, sent = [], []
    for cmd in inst.log:
        r = parse(env, cmd, pattern)
        env.check('every emitted command has the documented form', r is not None, cmd=cmd)
        if r is None:
            return
        ch, val = r
        conds.append(env.And(ch >= 1, ch <= 4))
        if lo is not None:
            conds.append(env.And(env.le(lo - ulp, val, hi), env.le(val, hi + ulp, hi)))
        sent.append(val)
    env.check('every command addresses a channel in 1..4 and carries a value inside the documented limits', env.And(conds))
    if lo is not None:
        req = [v] if vk == 'scalar' else list(vals)
        out_of_range = env.Or([env.Or(x < lo, x > hi) for x in req])
        env.check('an out-of-range request produces a warning', env.Implies(out_of_range, nwarn >= 1))
        if vk == 'scalar':
            inr = env.And(v >= lo, v <= hi)
            env.check('an in-range request is sent unchanged to every selected channel',
                      env.Implies(inr, env.And([env.le(s - ulp, v, hi) if ulp else env.eq(s, v) for s in sent] +
                                               [env.le(v, s + ulp, hi) if ulp else True for s in sent])))


def scen_freq(env, cfg):
    inst = FakeInst(env)
    p = driver(env, inst)
    f = env.real('f', 1e8, 1e11)
    w0 = len(env.events('warn'))
    try:
        p.set_freq(f)
        raised = None
    except Exception as e:      # noqa
        raised = f'{type(e).__name__}: {e}'
    env.check('no exception whatever value is requested (clamp and warn instead)', raised is None, raised=raised)
    if raised:
        return
    r = parse(env, inst.log[0], ':FREQ {}')
    env.check('one :FREQ command', len(inst.log) == 1 and r is not None)
    val = r[0]
    env.check('frequency inside 1.5-32 GHz', env.And(env.le(1.5e9 * (1 - 1e-5), val, 1e10), env.le(val, 32e9 * (1 + 1e-5), 1e10)))
    env.check('out-of-range request warns; in-range request is sent unchanged',
              env.And(env.Implies(env.Or(f < 1.5e9, f > 32e9), len(env.events('warn')) - w0 >= 1),
                      env.Implies(env.And(f >= 1.5e9, f <= 32e9), env.And(env.le(val * (1 - 1e-5), f, 1e10), env.le(f, val * (1 + 1e-5), 1e10)))))


def scen_offset(env, cfg):
    chk, vk = cfg['chs'], cfg['val']
    inst = FakeInst(env)
    p = driver(env, inst)
    CHs, _ = _chs(env, chk)
    if vk == 'scalar':
        v = env.real('v', -6, 6)
        req = [v]
    else:
        req = [env.real(f'v[{i}]', -6, 6) for i in range(int(vk[4:]))]
        v = list(req)
    w0 = len(env.events('warn'))
    try:
        p.set_offset(v, CHs)
        raised = None
    except Exception as e:      # noqa
        raised = f'{type(e).__name__}: {e}'
    env.check('no exception whatever value is requested (clamp and warn instead)', raised is None, raised=raised)
    if raised:
        return
    conds = []
    for cmd in inst.log:
        r = parse(env, cmd, ':VOLT{}:NEG:OFFS {}v') or parse(env, cmd, ':VOLT{}:POS:OFFS {}v')
        env.check('every emitted command has the documented form', r is not None, cmd=cmd)
        if r is None:
            return
        ch, val = r
        neg = ':NEG:' in cmd
        conds.append(env.And(ch >= 1, ch <= 4, env.le(-2 - 0.05, val, 3), env.le(val, 3 + 0.05, 3),
                             (val < 0) if neg else (val >= 0)))
    env.check('every command addresses a channel in 1..4 and carries an offset inside -2..3 V (NEG form iff negative)', env.And(conds))
    env.check('an out-of-range request produces a warning',
              env.Implies(env.Or([env.Or(x < -2, x > 3) for x in req]), len(env.events('warn')) - w0 >= 1))


def scen_prbs_order(env, cfg):
    inst = FakeInst(env)
    p = driver(env, inst)
    CHs, _ = _chs(env, cfg['chs'])
    o = env.int('order', -5, 40)
    w0 = len(env.events('warn'))
    try:
        p.set_prbs_order(o, CHs)
        raised = None
    except Exception as e:      # noqa
        raised = f'{type(e).__name__}: {e}'
    env.check('no exception whatever value is requested (clamp and warn instead)', raised is None, raised=raised)
    if raised:
        return
    conds = []
    for cmd in inst.log:
        r = parse(env, cmd, ':DIG{}:PATT:PLEN {}')
        env.check('every emitted command has the documented form', r is not None, cmd=cmd)
        if r is None:
            return
        ch, val = r
        conds.append(env.And(ch >= 1, ch <= 4, env.Or([val == k for k in (7, 9, 11, 15, 23, 31)])))
        conds.append(env.And([env.le(abs_(env, val - o), abs_(env, k - o)) for k in (7, 9, 11, 15, 23, 31)]))
    env.check('channel in 1..4; order from the supported list and nearest to the request', env.And(conds))
    sup = env.Or([o == k for k in (7, 9, 11, 15, 23, 31)])
    env.check('unsupported order warns', env.Implies(env.Not(sup), len(env.events('warn')) - w0 >= 1))


def abs_(env, x):
    return env.ite(x >= 0, x, -x)


def scen_channels(env, cfg):
    """channel normalisation through the commands of mode / enable / disable."""
    inst = FakeInst(env)
    p = driver(env, inst)
    CHs, _ = _chs(env, cfg['chs'])
    fn = cfg['fn']
    try:
        if fn == 'set_mode':
            p.set_mode(cfg.get('mode', 'prbs'), CHs)
        elif fn == 'enable':
            p.enable_outputs(CHs)
        else:
            p.disable_outputs(CHs)
        raised = None
    except Exception as e:      # noqa
        raised = f'{type(e).__name__}: {e}'
    env.check('no exception for any channel selection', raised is None, raised=raised)
    if raised:
        return
    pat = {'set_mode': ':DIG{}:PATT:TYPE ' + cfg.get('mode', 'prbs').upper(), 'enable': ':OUTP{} ON', 'disable': ':OUTP{} OFF'}[fn]
    conds = []
    for cmd in inst.log:
        r = parse(env, cmd, pat)
        env.check('every emitted command has the documented form', r is not None, cmd=cmd)
        if r is None:
            return
        conds.append(env.And(r[0] >= 1, r[0] <= 4))
    env.check('every command addresses a channel in 1..4; at most 4 commands', env.And(conds) if conds else True)
    env.check('at most one command per channel slot (<= 4) and at least one', 1 <= len(inst.log) <= 4)


def scen_dryrun(env, cfg):
    """without an instrument the same strings are printed."""
    if env.impl != 'model':
        import io
        import contextlib
        p = driver(env, None)
        buf = io.StringIO()
        with contextlib.redirect_stdout(buf):
            p.set_freq(10e9)
            p.set_skew(1e-12, [1, 2])
        lines = buf.getvalue().strip().split('\n')
    else:
        p = driver(env, None)
        p.set_freq(env.const('10e9'))
        p.set_skew(env.const('1e-12'), [1, 2])
        lines = [e[1] for e in env.events('print')]
    inst = FakeInst(env)
    q = driver(env, inst)
    q.set_freq(env.const('10e9'))
    q.set_skew(env.const('1e-12'), [1, 2])
    env.check('dry-run mode prints exactly the commands that would be sent', lines == inst.log)


def _mem(env, nch, L, sym):
    return {ch: ([env.bit(f'm{ch}[{i}]') for i in range(L)] if sym else [(i * 7 + ch * 3) % 5 % 2 for i in range(L)]) for ch in range(1, nch + 1)}


def scen_set_data(env, cfg):
    L, chunk, sym, nch = cfg['len'], cfg['chunk'], cfg['sym'], cfg['nch']
    inst = FakeInst(env)
    p = driver(env, inst)
    if chunk != 1024:
        p.MAX_CHUNK_LEN = chunk
    bits = env.bits('b', L) if sym else [(i * 5 + 1) % 3 % 2 for i in range(L)]
    start = env.int('start', 1, 1000)
    data = env.arr(list(bits)) if cfg.get('form', 'ndarray') == 'ndarray' else list(bits)
    CHs = list(range(1, nch + 1))
    p.set_data(data, start, CHs)
    per = {}
    for cmd in inst.log:
        m = _re.fullmatch(r':DIG(\d+):PATT:DATA (.+),(\d+),#(\d)(\d+?)((?:[01]|⟦\d+⟧)*)', cmd)
        env.check('every emitted command has the documented form', m is not None, cmd=cmd[:60])
        if m is None:
            return
        ch, addr, n, k, n2, payload = m.groups()
        # split "#<k><n>" properly: k digits of n
        head = cmd.split('#', 1)[1]
        k = int(head[0])
        n_hdr = head[1:1 + k]
        payload = head[1 + k:]
        per.setdefault(int(ch), []).append((inst._val(addr), int(n), k, n_hdr, payload))
    env.check('data is written to every selected channel', sorted(per) == CHs)
    conds = []
    for ch, blocks in per.items():
        pos = 0
        addr_exp = start
        for addr, n, k, n_hdr, payload in blocks:
            toks = [t for t in TOK.split(payload) if t] if env.impl == 'model' else list(payload)
            vals = []
            for t in toks:
                if TOK.fullmatch(t):
                    vals.append(next(e[1][1] for e in env.events('fmt') if e[1][0] == t))
                else:
                    vals += [int(c) for c in t]
            conds.append(1 <= n <= chunk)
            conds.append(n_hdr == str(n) and k == len(str(n)))
            conds.append(len(vals) == n)
            conds.append(env.eq(addr, addr_exp))
            conds += [env.eq(v, b) for v, b in zip(vals, bits[pos:pos + n])]
            pos += n
            addr_exp = addr_exp + n
        conds.append(pos == L)
    env.check('blocks of at most MAX_CHUNK_LEN bits, correct #<k><n> header, consecutive addresses from start_addrs, payload == the data, '
              'identical for every channel', env.And(conds))


def scen_get_requests(env, cfg):
    """request structure of get_data for a symbolic size."""
    inst = FakeInst(env, memory={1: [0] * 4096}, stop_on_symbolic=True)
    p = driver(env, inst)
    size = env.int('size', 1, 3 * 1024 - 1)
    start = env.int('start', 1, 1000)
    try:
        p.get_data(size, start, 1)
    except Stop:
        pass
    except Exception:           # noqa: assembling the result is checked in scen_get_data
        pass
    reqs = inst.requests
    conds = []
    tot = 0
    addr_exp = start
    for ch, addr, cnt in reqs:
        conds.append(env.And(cnt >= 1, cnt <= 1024))
        conds.append(env.eq(addr, addr_exp))
        addr_exp = addr_exp + cnt
        tot = tot + cnt
    env.check('every DATA? request asks for 1..1024 bits at consecutive addresses starting at start_addrs', env.And(conds))
    env.check('the requested counts add up to size', env.eq(tot, size))


def scen_get_data(env, cfg):
    size, chunk, nch = cfg['size'], cfg['chunk'], cfg['nch']
    L = size + 8
    mem = _mem(env, nch, L, cfg['sym'])
    inst = FakeInst(env, memory=mem)
    p = driver(env, inst)
    if chunk != 1024:
        p.MAX_CHUNK_LEN = chunk
    start = cfg['start']
    CHs = list(range(1, nch + 1))
    if env.impl == 'model' and cfg['sym']:
        U = env.lib.lab
        saved = U.str2array
        U.str2array = lambda s, dt=None: env.arr(list(s.bits), dtype=bool) if isinstance(s, SymBlock) else saved(s, dt)
    try:
        try:
            out = p.get_data(size, start, CHs)
            raised = None
        except Exception as e:      # noqa
            raised = f'{type(e).__name__}: {e}'
    finally:
        if env.impl == 'model' and cfg['sym']:
            U.str2array = saved
    env.check('get_data returns without error for every size', raised is None, raised=raised)
    if raised:
        return
    rows = [env.items(out[i]) for i in range(len(CHs))] if hasattr(out, 'ndim') and out.ndim >= 2 else None
    env.check('result has one row of `size` bits per channel', rows is not None and all(len(r) == size for r in rows))
    if rows is None or not all(len(r) == size for r in rows):
        return
    env.check('get_data returns exactly the memory range of every channel',
              env.And([env.eq(v, mem[ch][start - 1 + j]) for ch, r in zip(CHs, rows) for j, v in enumerate(r)]))


class SymBlock(str):
    """IEEE block whose payload bits are symbolic; slicing keeps the payload."""
    def __new__(cls, txt, bits):
        o = str.__new__(cls, txt)
        o.bits = bits
        return o

    def __getitem__(self, k):
        r = str.__getitem__(self, k)
        if isinstance(k, slice):
            return SymBlock(r, self.bits)
        return r


def scen_roundtrip(env, cfg):
    """set_data then get_data of the same range returns the same bits (simulated memory)."""
    L, chunk, nch = cfg['len'], cfg['chunk'], cfg['nch']
    bits = [(i * 5 + 1) % 3 % 2 for i in range(L)]

    class Mem(FakeInst):
        def query(self, cmd):
            m = _re.fullmatch(r':DIG(\d+):PATT:DATA (\d+),(\d+),#(\d)(.*)', cmd)
            if m:
                ch, addr, n, k, rest = m.groups()
                payload = rest[int(k):]
                for j, c in enumerate(payload):
                    self.memory.setdefault(int(ch), {})[int(addr) - 1 + j] = int(c)
                self.log.append(cmd)
                return '\n'
            return FakeInst.query(self, cmd)
    inst = Mem(env, memory={})
    p = driver(env, inst)
    if chunk != 1024:
        p.MAX_CHUNK_LEN = chunk
    CHs = list(range(1, nch + 1))
    p.set_data(env.arr(list(bits)), 3, CHs)
    try:
        out = p.get_data(L, 3, CHs)
        raised = None
    except Exception as e:      # noqa
        raised = f'{type(e).__name__}: {e}'
    env.check('get_data after set_data returns without error', raised is None, raised=raised)
    if raised:
        return
    ok = hasattr(out, 'ndim') and out.ndim == 2 and out.shape == (nch, L)
    env.check('get_data of the written range returns the same bits for every channel',
              ok and all([int(v) for v in env.items(out[i])] == bits for i in range(nch)))


def scen_call(env, cfg):
    inst = FakeInst(env)
    p = driver(env, inst)
    f = env.real('f', 1e8, 1e11)
    sk = env.real('skew', -1e-10, 1e-10)
    pl = env.int('pl', -5, 2 ** 22)
    try:
        r = p(freq=f, patt_len=pl, skew=sk, mode='PRBS', order=env.int('o', 0, 40), CHs=[1, 2]) if cfg['via'] == 'call' else \
            p.config(freq=f, patt_len=pl, skew=sk, mode='PRBS', order=env.int('o', 0, 40), CHs=[1, 2])
        raised = None
    except Exception as e:      # noqa
        raised = f'{type(e).__name__}: {e}'
    env.check('no exception whatever value is requested (clamp and warn instead)', raised is None, raised=raised)
    if raised:
        return
    conds = []
    for cmd in inst.log:
        for pat, lo, hi, ulp in ((':FREQ {}', 1.5e9 * (1 - 1e-5), 32e9 * (1 + 1e-5), 0), (':DIG{}:PATT:LENG {}', 2, 2 ** 21, 0),
                                 (':SKEW{} {}', -25e-12, 25e-12, 1e-18), (':DIG{}:PATT:TYPE PRBS', None, None, 0), (':DIG{}:PATT:PLEN {}', 7, 31, 0)):
            r_ = parse(env, cmd, pat)
            if r_ is not None:
                if len(r_) == 2 or (len(r_) == 1 and pat.startswith(':DIG')):
                    conds.append(env.And(r_[0] >= 1, r_[0] <= 4))
                if lo is not None:
                    conds.append(env.And(env.le(lo - ulp, r_[-1], hi), env.le(r_[-1], hi + ulp, hi)))
                break
        else:
            conds.append(False)
    env.check('every command emitted by the combined configuration call is in range', env.And(conds))


# ------------------------------------------------------------------------------------------------ SYNC

def scen_sync(env, cfg):
    Lb, T = env.lib.lab, env.lib.typing
    pattern, sps, d, form = cfg['pattern'], cfg['sps'], cfg['d'], cfg['form']
    T.gv(sps=sps, R=env.const('1e9'))
    slots = [int(c) for c in pattern]
    wave = [b for b in slots for _ in range(sps)]
    l = len(wave)
    idt = cfg.get('idtype')
    if idt:
        a, c0 = int(cfg['a']), int(cfg['c'])        # raw integer counts kept in a narrow dtype (int8 scope samples)
    elif cfg.get('a') is not None:
        a, c0 = env.const(cfg['a']), env.const(cfg['c'])
    else:
        a = env.real('a', 0.5, 4)
        c0 = env.real('c', 0, 1)             # non-negative DC level (photodetected waveforms); see ASSUMPTIONS
    reps = 3
    base = wave * (reps + 1)
    clean = base[l - d: l - d + reps * l] if d else base[:reps * l]
    eps = a * env.const(cfg.get('noise', '0.02'))
    win = cfg.get('win', 0)
    W = cfg.get('wlen', 4)
    if idt:
        noise = [0] * (2 * l)            # concrete counts: integer unknowns inside std() take the solver past its budget (stated in BOUNDS)
    elif cfg.get('a') is not None:
        noise = [env.real(f'e[{k}]', -eps, eps) if win <= k < win + W else 0 for k in range(2 * l)]
    else:
        noise = [env.real(f'e[{k}]', None, None) if win <= k < win + W else 0 for k in range(2 * l)]
        for e in noise:
            if not isinstance(e, int):
                env.assume(env.And(e <= eps, e >= -eps))        # bounded noise, linear in (e, a)
    rx = []
    for k, b in enumerate(clean):
        e = noise[k] if k < len(noise) else 0
        rx.append(a * b + c0 + e)
    tx = T.binary_sequence(slots) if form == 'es' else env.arr(slots, dtype='uint8') if cfg.get('idtype') else env.arr(slots)
    arg = T.electrical_signal(rx) if form == 'es' else env.arr(rx, dtype=idt) if idt else env.arr(rx)
    snap = env.snap(arg.signal if form == 'es' else arg)
    if form == 'es':
        sig, i = Lb.SYNC(arg, tx)
    else:
        sig, i = Lb.SYNC(arg, tx, sps)
    env.check('SYNC returns the delay d of the pattern inside the received waveform', env.eq(i, d))
    exp = rx[d: len(rx) - (l - d)]
    env.check('the returned signal starts at that sample', len(env.items(sig.signal)) == len(exp) and env.eqs(sig.signal, exp, scale=10))
    env.check('input untouched', env.untouched(arg.signal if form == 'es' else arg, snap))


def scen_sync_reject(env, cfg):
    Lb, T = env.lib.lab, env.lib.typing
    T.gv(sps=2, R=env.const('1e9'))
    tx = T.binary_sequence([1, 0, 1, 1])
    rx = T.electrical_signal(list(env.reals('r', 6, -1, 1)))
    try:
        Lb.SYNC(rx, tx)
        ok = True
    except BufferError:
        ok = False
    env.check('a received record shorter than the pattern waveform is rejected (BufferError)', not ok)
    for bad_rx, bad_tx, exc in (([1.0, 2.0], tx, TypeError), (rx, [1, 0], TypeError)):
        try:
            Lb.SYNC(bad_rx, bad_tx)
            ok = True
        except exc:
            ok = False
        env.check('wrongly typed arguments raise TypeError', not ok)
    try:
        Lb.SYNC(env.arr([0.0] * 8), env.arr([1, 0, 1, 1]))
        ok = True
    except ValueError:
        ok = False
    env.check('ndarray input without sps raises ValueError', not ok)


def configs(tier):
    q = tier == 'quick'
    out = []
    chsel = ['none', 'int', 'list2'] if q else ['none', 'int', 'list1', 'list3', 'list5']
    for fn in SETTERS:
        for chk in chsel:
            for vk in (('scalar', 'list2') if q else ('scalar', 'list1', 'list2', 'list4')):
                if vk != 'scalar' and chk not in ('none', 'list2', 'list3'):
                    continue
                if vk != 'scalar' and chk == 'none' and vk != 'list4' and not q:
                    pass
                out.append((f'{fn}-chs-{chk}-val-{vk}', scen_setter, dict(fn=fn, chs=chk, val=vk), {}))
    out.append(('set_freq', scen_freq, {}, {}))
    for chk in chsel:
        for vk in ('scalar', 'list2'):
            if vk != 'scalar' and chk == 'int':
                continue
            out.append((f'set_offset-chs-{chk}-val-{vk}', scen_offset, dict(chs=chk, val=vk), {}))
        out.append((f'set_prbs_order-chs-{chk}', scen_prbs_order, dict(chs=chk), {}))
        for fn in ('set_mode', 'enable', 'disable'):
            out.append((f'{fn}-chs-{chk}', scen_channels, dict(fn=fn, chs=chk), {}))
    out.append(('dry-run', scen_dryrun, {}, {}))
    for L in ((1, 3, 4, 5, 8, 9) if q else range(1, 14)):
        out.append((f'set_data-chunk4-len{L}', scen_set_data, dict(len=L, chunk=4, sym=True, nch=2), {}))
    out.append(('set_data-chunk4-list', scen_set_data, dict(len=6, chunk=4, sym=True, nch=1, form='list'), {}))
    for L in ((1, 1023, 1024, 1025, 2049) if q else (1, 2, 1023, 1024, 1025, 2047, 2048, 2049, 3072)):
        out.append((f'set_data-chunk1024-len{L}', scen_set_data, dict(len=L, chunk=1024, sym=False, nch=1), {'validate': 1}))
    out.append(('get_data-requests', scen_get_requests, {}, {'limits': {'max_concretise': 8}}))
    for size in ((1, 3, 4, 5, 8, 9) if q else range(1, 14)):
        out.append((f'get_data-chunk4-size{size}', scen_get_data, dict(size=size, chunk=4, nch=2, start=2, sym=True), {}))
    for size in ((5, 1024, 1025) if q else (1, 1023, 1024, 1025, 2048, 2049)):
        out.append((f'get_data-chunk1024-size{size}', scen_get_data, dict(size=size, chunk=1024, nch=1, start=1, sym=False), {'validate': 1}))
    for L, chunk in (((6, 4), (1025, 1024)) if q else ((3, 4), (6, 4), (8, 4), (1025, 1024), (2048, 1024))):
        out.append((f'roundtrip-chunk{chunk}-len{L}', scen_roundtrip, dict(len=L, chunk=chunk, nch=2), {'validate': 1}))
    for via in ('call', 'config'):
        out.append((f'combined-{via}', scen_call, dict(via=via), {}))
    if q:
        out.append(('enable-chs-list5', scen_channels, dict(fn='enable', chs='list5'), {}))
    pats = [('1011000', 1), ('1101', 2)] if q else [('1011000', 1), ('1011000', 2), ('1101', 2), ('110100', 1)]
    for ptn, sps in pats:
        l = len(ptn) * sps
        for d in range(l):
            if q and d not in (0, 1, l // 2, l - 1):
                continue
            for a_, c_ in (('1', '0'), ('0.5', '0.25')):
                for win in ((0, d) if q else range(0, 2 * l - 3, 2)):
                    out.append((f'sync-{ptn}-sps{sps}-d{d}-a{a_}-c{c_}-win{win}', scen_sync,
                                dict(pattern=ptn, sps=sps, d=d, form='es', a=a_, c=c_, win=win), {}))
        out.append((f'sync-{ptn}-sps{sps}-ndarray', scen_sync, dict(pattern=ptn, sps=sps, d=1, form='ndarray', a='2', c='0.5', win=1), {}))
    for d in ((0, 3) if q else (0, 1, 3, 6)):
        out.append((f'sync-1011000-sps1-uint8-counts-d{d}', scen_sync, dict(pattern='1011000', sps=1, d=d, form='ndarray', a='100', c='20', win=d, idtype='uint8'), {}))
    out.append(('sync-reject', scen_sync_reject, {}, {}))
    return out
