"""C12 — PPM encode/decode is a bijection on whole symbols; HDD/SDD emit valid codewords."""
ID = 'C12'
FUNCTIONS = [('ppm', 'PPM_ENCODER'), ('ppm', 'PPM_DECODER'), ('ppm', 'HDD'), ('ppm', 'SDD'), ('utils', 'dec2bin')]
BOUNDS = {'encoder': 'every bit string (symbolic) of the listed lengths (<= 12 quick / <= 17 thorough) for M in {2,...,256}',
          'round trip': 'every bit string of <= 3 symbols for M in {2,4}, 2 symbols for M = 8, 1 symbol for M in {16,32} (quick); deeper in thorough',
          'HDD': 'every slot pattern (symbolic) and every value of every random draw: M=2 x 3 symbols, M=4 x 2, M=8 x 1 (quick); up to 16 slots (thorough)',
          'SDD': 'every real waveform of <= 2 symbols, M <= 4, sps in {1,2,3}, with and without noise'}
OUTSIDE = ['sequences longer than the bound (block-local code)', 'Gaussian-shaped waveforms for SDD', 'symbolic string contents']
ASSUMPTIONS = ['np.random.randint(M) returns an arbitrary integer in [0, M); np.random.choice(j) an arbitrary element of j (stub contracts)',
               'int(np.log2(M)) is exact for M a power of two <= 256 (evaluated exactly; doubles represent these logarithms exactly)']
LIMITS = {'max_paths': 6000, 'max_branches': 600}


def _log2(M):
    return M.bit_length() - 1


def _arg(env, form, bits):
    T = env.lib.typing
    if form == 'list':
        return list(bits)
    if form == 'tuple':
        return tuple(bits)
    if form == 'ndarray':
        return env.arr(list(bits))
    return T.binary_sequence(list(bits))


def scen_encoder(env, cfg):
    P = env.lib.ppm
    M, n, form = cfg['M'], cfg['n'], cfg['form']
    k = _log2(M)
    bits = env.bits('b', n)
    arg = _arg(env, form, bits)
    snap = env.snap(arg) if form == 'ndarray' else (env.snap(arg.data) if form == 'bs' else None)
    out = P.PPM_ENCODER(arg, M)
    nsym = n // k
    d = env.items(out.data)
    env.check('output length is floor(n/k)*M', len(d) == nsym * M)
    conds = []
    for s in range(nsym):
        pos = sum(bits[s * k + j] * (1 << (k - 1 - j)) for j in range(k))
        for m in range(M):
            conds.append(env.Iff(d[s * M + m] == 1, env.eq(pos, m)))
            conds.append(env.Or(d[s * M + m] == 0, d[s * M + m] == 1))
    env.check('exactly the slot given by the big-endian value of each k-bit group is ON', env.And(conds))
    if snap is not None:
        env.check('input untouched', env.untouched(arg if form == 'ndarray' else arg.data, snap))
    if cfg.get('compare_forms'):
        for f2 in ('tuple', 'ndarray', 'bs'):
            o2 = P.PPM_ENCODER(_arg(env, f2, bits), M)
            env.check(f'{f2} input gives the same codeword stream as list input', env.eqs(o2.data, d))


def scen_roundtrip(env, cfg):
    P = env.lib.ppm
    M, n = cfg['M'], cfg['n']
    k = _log2(M)
    bits = env.bits('b', n)
    enc = P.PPM_ENCODER(list(bits), M)
    dec = P.PPM_DECODER(enc, M)
    keep = n // k * k
    env.check('PPM_DECODER(PPM_ENCODER(b,M),M) == b truncated to whole symbols',
              len(dec) == keep and env.And([env.eq(a, b) for a, b in zip(env.items(dec.data), bits[:keep])]))


def scen_decoder_forms(env, cfg):
    P = env.lib.ppm
    M = cfg['M']
    k = _log2(M)
    slots, exp = [], []
    for v in cfg['symbols']:
        slots += [1 if i == v else 0 for i in range(M)]
        exp += [(v >> (k - 1 - j)) & 1 for j in range(k)]
    for form in ('list', 'tuple', 'ndarray', 'bs'):
        dec = P.PPM_DECODER(_arg(env, form, slots), M)
        env.check(f'decoder on {form} input returns the big-endian bits of each ON position', [int(x) for x in env.items(dec.data)] == exp)
    txt = ''.join(str(s) for s in slots)
    env.check('decoder on str input', [int(x) for x in env.items(P.PPM_DECODER(txt, M).data)] == exp)
    env.check('encoder on str input', [int(x) for x in env.items(P.PPM_ENCODER(''.join(str(b) for b in exp), M).data)] == slots)
    for bad in (5, None, 2.5):
        try:
            P.PPM_ENCODER(bad, M)
            ok = True
        except TypeError:
            ok = False
        env.check(f'encoder rejects {bad!r} with TypeError', not ok)


def scen_hdd(env, cfg):
    P = env.lib.ppm
    M, nsym = cfg['M'], cfg['nsym']
    if cfg.get('prefix'):
        # large orders: each symbol has its first k slots ON (k symbolic over the listed counts, the extremes 0 and M included)
        slots = []
        for sy in range(nsym):
            which = env.int(f'which{sy}', 0, len(cfg['prefix']) - 1)
            k = cfg['prefix'][-1]
            for j in range(len(cfg['prefix']) - 2, -1, -1):
                k = env.ite(which == j, cfg['prefix'][j], k)
            slots += [env.ite(i < k, 1, 0) for i in range(M)]
    else:
        slots = env.bits('x', M * nsym)
    arg = env.arr(list(slots), dtype=bool)
    snap = env.snap(arg)
    out = P.HDD(arg, M)
    d = env.items(out.data)
    env.check('length preserved', len(d) == M * nsym)
    for s in range(nsym):
        blk_in = slots[s * M:(s + 1) * M]
        blk = d[s * M:(s + 1) * M]
        cnt_in = sum(blk_in)
        env.check(f'symbol {s}: exactly one ON slot in the output', env.And([env.eq(sum(blk), 1)] + [env.Or(v == 0, v == 1) for v in blk]))
        env.check(f'symbol {s}: unchanged if it already had exactly one ON slot',
                  env.Implies(env.eq(cnt_in, 1), env.And([env.eq(a, b) for a, b in zip(blk, blk_in)])))
        env.check(f'symbol {s}: if several slots were ON the kept one was ON in the input',
                  env.Implies(cnt_in >= 2, env.And([env.Implies(a == 1, b == 1) for a, b in zip(blk, blk_in)])))
    env.check('input untouched', env.untouched(arg, snap))


def scen_hdd_reject(env, cfg):
    P = env.lib.ppm
    kind = cfg['kind']
    env.lib.typing.gv(sps=2, R=env.const('1e9'))
    if kind == 'M':
        for M in range(1, 21):
            try:
                P.HDD([0] * (M * 2), M)
                ok = True
            except ValueError:
                ok = False
            env.check(f'HDD: M={M} accepted iff a power of two', ok == (M & (M - 1) == 0))
            try:
                P.SDD(env.arr([env.const('0.5')] * (M * 2 * 2)), M)
                ok = True
            except ValueError:
                ok = False
            env.check(f'SDD: M={M} accepted iff a power of two', ok == (M & (M - 1) == 0))
    else:
        for M in (2, 4, 8):
            for L in range(1, 2 * M + 2):
                try:
                    P.HDD([0] * L, M)
                    ok = True
                except ValueError:
                    ok = False
                env.check(f'HDD: M={M}, length {L} accepted iff a whole number of symbols', ok == (L % M == 0))
                try:
                    P.SDD(env.arr([env.const('0.5')] * L), M)
                    ok = True
                except ValueError:
                    ok = False
                env.check(f'SDD: M={M}, length {L} accepted iff a multiple of M*sps', ok == (L % (M * 2) == 0))


def scen_sdd(env, cfg):
    P, T = env.lib.ppm, env.lib.typing
    M, nsym, sps, noise, form = cfg['M'], cfg['nsym'], cfg['sps'], cfg['noise'], cfg['form']
    T.gv(sps=sps, R=env.const('1e9'))
    L = M * nsym * sps
    s = env.reals('s', L, -5, 5)
    w = env.reals('w', L, -5, 5) if noise else None
    tot = [a + b for a, b in zip(s, w)] if noise else list(s)
    if form == 'es':
        arg = T.electrical_signal(list(s), list(w) if noise else None)
    else:
        arg = env.arr(tot)
    snaps = [(arg.signal, env.snap(arg.signal)), (arg.noise, env.snap(arg.noise))] if form == 'es' else [(arg, env.snap(arg))]
    out = P.SDD(arg, M)
    d = env.items(out.data)
    env.check('one decision per slot', len(d) == M * nsym)
    env.check('the decoder leaves its input (signal and noise) untouched', env.And([env.untouched(a, sn) for a, sn in snaps if a is not None]))
    again = P.SDD(arg, M)
    env.check('decoding the same object again gives the same codeword', env.eqs(again.data, d))
    sums = [sum(tot[i * sps:(i + 1) * sps]) for i in range(M * nsym)]
    conds = []
    for sy in range(nsym):
        blk, e = d[sy * M:(sy + 1) * M], sums[sy * M:(sy + 1) * M]
        conds.append(env.eq(sum(blk), 1))
        for j in range(M):
            first_max = env.And([e[j] >= e[i] for i in range(M) if i != j] + [e[j] > e[i] for i in range(j)])
            conds.append(env.Iff(blk[j] == 1, first_max))
            conds.append(env.Or(blk[j] == 0, blk[j] == 1))
    env.check('exactly the slot of largest integrated energy (first on ties) is ON in every symbol', env.And(conds))


def scen_sdd_identity(env, cfg):
    """SDD and HDD are the identity on valid codewords and on their noiseless NRZ/RZ waveforms."""
    P, T, D = env.lib.ppm, env.lib.typing, env.lib.devices
    M, nsym, sps, shape = cfg['M'], cfg['nsym'], cfg['sps'], cfg['shape']
    k = _log2(M)
    T.gv(sps=sps, R=env.const('1e9'))
    bits = env.bits('b', k * nsym)
    code = P.PPM_ENCODER(list(bits), M)
    Vout = env.real('Vout', 0, 40, lo_strict=True)
    bias = env.real('bias', -40, 40)
    x = D.DAC(code, Vout=Vout, bias=bias, pulse_shape=shape)
    out = P.SDD(x, M)
    env.check('SDD(noiseless waveform of a codeword) == the codeword', env.eqs(out.data, env.items(code.data)))
    h = P.HDD(code, M)
    env.check('HDD is the identity on valid codewords', env.eqs(h.data, env.items(code.data)))
    env.check('no random draw is requested for valid codewords', len(env.events('rand_call')) == 0 if env.impl == 'model' else True)


def configs(tier):
    q = tier == 'quick'
    out = []
    for M in (2, 4, 8, 16, 32, 64, 128, 256):
        k = _log2(M)
        ns = sorted({k, 2 * k + 1, min(12, 3 * k)} if q else {k - 1 if k > 1 else 1, k, k + 1, 2 * k, 2 * k + 1, min(17, 3 * k + 1)})
        for n in ns:
            if n > (12 if q else 17) and n > 2 * k + 1:
                continue
            out.append((f'enc-M{M}-n{n}', scen_encoder, dict(M=M, n=n, form='list', compare_forms=(n == k and M <= 16)), {}))
        out.append((f'enc-M{M}-bs', scen_encoder, dict(M=M, n=2 * k, form='bs'), {}))
        out.append((f'enc-M{M}-ndarray', scen_encoder, dict(M=M, n=k + 1, form='ndarray'), {}))
    rt = [(2, 3), (2, 1), (4, 4), (4, 5), (8, 6), (8, 4), (16, 4), (16, 5), (32, 5), (64, 6)] if q else \
        [(2, n) for n in range(1, 9)] + [(4, n) for n in (2, 3, 4, 6, 7)] + [(8, n) for n in (3, 6, 7)] + [(16, 4), (16, 8), (32, 5), (64, 6), (128, 7), (256, 8)]
    for M, n in rt:
        out.append((f'roundtrip-M{M}-n{n}', scen_roundtrip, dict(M=M, n=n), {}))
    out.append(('decoder-forms-M4', scen_decoder_forms, dict(M=4, symbols=[2, 0, 3]), {}))
    out.append(('decoder-forms-M16', scen_decoder_forms, dict(M=16, symbols=[9, 15]), {}))
    hd = [(2, 3), (4, 2), (8, 1)] if q else [(2, 3), (2, 5), (4, 2), (4, 3), (8, 1)]          # (8,2) and (16,1) have 2^16 slot masks: beyond the path budget (6000), covered by the prefix-count configurations instead
    for M, nsym in hd:
        out.append((f'hdd-M{M}-x{nsym}', scen_hdd, dict(M=M, nsym=nsym), {}))
    for M in ((256,) if q else (32, 64, 128, 256)):
        out.append((f'hdd-M{M}-x1-prefix-counts', scen_hdd, dict(M=M, nsym=1, prefix=[0, 1, 2, M - 1, M]),
                    {'limits': {'max_branches': 4000, 'max_paths': 40}}))
    out.append(('hdd-sdd-reject-M', scen_hdd_reject, dict(kind='M'), {}))
    out.append(('hdd-sdd-reject-length', scen_hdd_reject, dict(kind='len'), {}))
    for M, nsym in ((2, 2), (4, 1), (4, 2)) if q else ((2, 1), (2, 2), (4, 1), (4, 2), (8, 1)):
        for sps in ((1, 2) if q else (1, 2, 3)):
            for noise in (False, True):
                for form in (('es',) if noise else ('es', 'ndarray')):
                    if M * nsym * sps > 16:
                        continue
                    out.append((f'sdd-M{M}-x{nsym}-sps{sps}-{"noise" if noise else "clean"}-{form}', scen_sdd,
                                dict(M=M, nsym=nsym, sps=sps, noise=noise, form=form), {}))
    for M, nsym, sps, shape in ((2, 2, 2, 'nrz'), (4, 2, 2, 'rz'), (4, 1, 3, 'nrz'), (8, 1, 2, 'nrz')) if q else \
            ((2, 3, 2, 'nrz'), (2, 2, 3, 'rz'), (4, 2, 2, 'rz'), (4, 2, 3, 'nrz'), (8, 2, 2, 'nrz'), (8, 1, 4, 'rz'), (16, 1, 2, 'nrz')):
        out.append((f'identity-M{M}-x{nsym}-sps{sps}-{shape}', scen_sdd_identity, dict(M=M, nsym=nsym, sps=sps, shape=shape), {}))
    return out
