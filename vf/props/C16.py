"""C16 — FBG (partial): specification routes, rejection of incomplete specifications, the ODE set-up, and everything after the ODE.

scipy.integrate.solve_ivp (adaptive RK45 on a 2N-dimensional complex state) has no bounded encoding: symbolically it is a
recording stub returning an arbitrary complex state; the ODE clauses of the property (|H| <= 1, tanh^2 peak, uniform closed form)
are outside the claim.
"""
ID = 'C16'
FUNCTIONS = [('devices', 'FBG'), ('utils', 'rcos')]
BOUNDS = {'call-history differential': 'for the blocks of this property registered in vf/history.py (concrete orders / bandwidths / gains / gv configurations, symbolic samples): the call repeated in a session that first ran it with one parameter or one gv setting changed equals the call in a fresh library instance',
          'frequency bins': 'input length N = 4 (thorough: also 3 and 8 for the clauses after the ODE; exact DFT), one and two polarisations',
          'parameters': 'fc (or landa_D), kL / L / N-periods, vdneff (or dneff), neff, v, chirp F: symbolic reals; the four built-in apodisations '
                        'and a user callable',
          'stubs': 'solve_ivp returns an arbitrary complex state (R, S); tau_g / dispersion / find_peaks / peak_widths / si (printed summary and the '
                   'unit-modulus delay factor) return arbitrary values'}
OUTSIDE = ['|H(f)| <= 1, reflectivity tanh^2(kL * integral of the profile) at the Bragg frequency, the uniform-grating closed form: statements about '
           'the numerical solution of the coupled-mode ODE', 'the group-delay correction (filtfilt=True multiplies H by a unit-modulus factor '
           'computed from unwrap/angle, which are outside the model); symbolic runs use filtfilt=False']
ASSUMPTIONS = ['solve_ivp(fun, t_span, y0, method, args, vectorized) integrates y\' = fun(t, y, *args) from t_span[0] to t_span[1] (scipy contract)',
               'energy clause: IF |H_k| <= 1 for every bin THEN output energy <= input energy (the premise is the ODE clause left outside)']
LIMITS = {'max_paths': 400, 'query_timeout_ms': 180000, 'max_branches': 800}

C0 = '299792458'


class Rec:
    """records solve_ivp calls; on the real library it forwards to the real solver."""
    def __init__(self, env, D):
        self.env, self.calls, self.D = env, [], D
        self.real = D.solve_ivp

    def __call__(self, fun, t_span, y0, method='RK45', args=None, vectorized=False, **kw):
        self.calls.append(dict(fun=fun, t_span=t_span, y0=y0, method=method, args=args, vectorized=vectorized))
        return self.real(fun, t_span=t_span, y0=y0, method=method, args=args, vectorized=vectorized, **kw)


def _patch(env):
    """stub the summary helpers in the model; record solve_ivp everywhere."""
    D = env.lib.devices
    saved = dict(solve_ivp=D.solve_ivp, tau_g=D.tau_g, dispersion=D.dispersion, si=D.si)
    rec = Rec(env, D)
    D.solve_ivp = rec
    if env.impl == 'model':
        np = env.np
        D.tau_g = lambda H, fs: np.zeros(H.size - 1)
        D.dispersion = lambda H, fs, f0: np.zeros(H.size - 2)
        D.si = lambda *a, **k: '<si>'          # summary strings only (si is decided in C19)
    return rec, saved


def _unpatch(env, saved):
    D = env.lib.devices
    for k, v in saved.items():
        setattr(D, k, v)


def _setup(env):
    T = env.lib.typing
    T.gv(sps=4, R=env.const('1e10'))


def _field(env, n, pol):
    T = env.lib.typing
    S = [env.cplxs(f'E.s{p}', n, -2, 2) for p in range(pol)]
    return (T.optical_signal(list(S[0])) if pol == 1 else T.optical_signal([list(r) for r in S])), S


def _call_args(env, rec):
    c = rec.calls[-1]
    a = c['args']
    return dict(delta=env.items(a[0]), s=env.items(a[1]), k=env.items(a[2]), F=a[3], apo=a[4], y0=env.items(c['y0']), t_span=list(c['t_span']),
                method=c['method'], vectorized=c['vectorized'], fun=c['fun'])


def scen_routes(env, cfg):
    D = env.lib.devices
    _setup(env)
    x, S = _field(env, 4, 1)
    fc = env.real('fc', 1.9e14, 1.95e14)
    vd = env.real('vdneff', 1e-5, 1e-3)
    kL = env.real('kL', 0.1, 8)
    neff = env.real('neff', 1.4, 1.5)
    F = env.real('F', -20, 20)
    c = env.const(C0)
    lamD = c / fc
    L = kL * lamD / (env.pi() * vd)
    Nper = 2 * neff * L / lamD
    rec, saved = _patch(env)
    try:
        base = dict(neff=neff, vdneff=vd, F=F, print_params=False, filtfilt=False, retH=True)
        routes = {'fc+kL': dict(fc=fc, kL=kL), 'fc+L': dict(fc=fc, L=L), 'fc+N': dict(fc=fc, N=Nper),
                  'landa_D+kL': dict(landa_D=lamD, kL=kL), 'landa_D+L': dict(landa_D=lamD, L=L), 'landa_D+N': dict(landa_D=lamD, N=Nper)}
        outs = {}
        for name in cfg['routes']:
            y, H = D.FBG(x, **routes[name], **base)
            outs[name] = (_call_args(env, rec), H)
    finally:
        _unpatch(env, saved)
    ref_name = cfg['routes'][0]
    ref, Href = outs[ref_name]
    for name in cfg['routes'][1:]:
        a, H = outs[name]
        if env.symbolic:
            env.check(f'route {name} sets up the same coupled-mode problem as {ref_name} (detuning, dc and ac coupling, chirp, initial state)',
                      env.And([env.eq(u, v, scale=1e3) for u, v in zip(a['delta'], ref['delta'])] +
                              [env.eq(u, v, scale=1e3) for u, v in zip(a['s'], ref['s'])] +
                              [env.eq(u, v, scale=10) for u, v in zip(a['k'], ref['k'])] +
                              [env.eq(a['F'], ref['F'], scale=20), env.eqs(a['y0'], ref['y0'])]))
        else:
            env.check(f'route {name} sets up the same coupled-mode problem as {ref_name} (detuning, dc and ac coupling, chirp, initial state)',
                      env.eqs(H, env.items(Href), scale=1))


def scen_reject(env, cfg):
    D = env.lib.devices
    _setup(env)
    x, S = _field(env, 4, 1)
    v = lambda nm, lo, hi: env.real(nm, lo, hi)
    fc, lam = v('fc', 1.9e14, 1.95e14), v('lam', 1.5e-6, 1.6e-6)
    dn, vd, kL, L = v('dneff', 1e-5, 1e-3), v('vdneff', 1e-5, 1e-3), v('kL', 0.1, 8), v('L', 1e-3, 0.1)
    bad = [dict(), dict(fc=fc), dict(landa_D=lam), dict(fc=fc, dneff=dn), dict(fc=fc, vdneff=vd), dict(landa_D=lam, dneff=dn),
           dict(landa_D=lam, vdneff=vd), dict(landa_D=lam, kL=kL), dict(kL=kL, L=L), dict(dneff=dn, L=L), dict(fc=fc, kL=kL), dict(fc=fc, L=L)]
    rec, saved = _patch(env)
    try:
        for kw in bad:
            try:
                D.FBG(x, print_params=False, filtfilt=False, **kw)
                ok = True
            except ValueError:
                ok = False
            env.check(f'incomplete specification {sorted(kw)} raises ValueError', not ok)
        try:
            D.FBG(env.arr([1.0, 2.0, 3.0, 4.0]), fc=fc, vdneff=vd, kL=kL)
            ok = True
        except TypeError:
            ok = False
        env.check('non-optical input raises TypeError', not ok)
    finally:
        _unpatch(env, saved)


def scen_ode(env, cfg):
    """the ODE handed to the solver is R' = j(s^ R + k S), S' = -j(s^ S + k R), s^ = delta + s*p(z) - F*z, k*p(z), from +1/2 to -1/2, y0 = (1.., 0..)."""
    D = env.lib.devices
    _setup(env)
    N = 4
    x, S = _field(env, N, 1)
    apo = cfg['apo']
    fc = env.real('fc', 1.9e14, 1.95e14)
    vd = env.real('vdneff', 1e-5, 1e-3)
    kL = env.real('kL', 0.1, 8)
    F = env.real('F', -20, 20)
    user = (lambda z: 1 + z * env.const('0.5')) if apo == 'callable' else None      # a smooth positive profile that exceeds 1 on part of the grating
    rec, saved = _patch(env)
    try:
        D.FBG(x, fc=fc, vdneff=vd, kL=kL, F=F, apodization=(user if apo == 'callable' else apo), print_params=False, filtfilt=False)
        a = _call_args(env, rec)
    finally:
        _unpatch(env, saved)
    env.check('integration from z = +1/2 to z = -1/2 with RK45, vectorised right-hand side', env.eq(a['t_span'][0], 0.5) and env.eq(a['t_span'][1], -0.5)
              and a['method'] == 'RK45' and a['vectorized'] is True)
    env.check('initial state: forward wave 1, backward wave 0 in every bin', env.eqs(a['y0'], [1] * N + [0] * N))
    z = env.real('z', -0.5, 0.5)
    Rv = env.cplxs('Rw', N, -2, 2)
    Sv = env.cplxs('Sw', N, -2, 2)
    rho = env.arr(list(Rv) + list(Sv))
    call = rec.calls[-1]
    dR, dS = a['fun'](z, rho, *call['args'])
    if apo == 'uniform':
        pz = 1
    elif apo == 'parabolic':
        pz = 1 - (2 * z) * (2 * z)
    elif apo == 'gaussian':
        import math
        pz = env.exp(-(env.num(4 * math.log(2))) * (3 * z) * (3 * z))
    elif apo == 'rcos':
        az = env.ite(z >= 0, z, -z)
        pz = (1 + env.cos(env.pi() * 2 * az)) / 2          # rcos(z, alpha=1, T=2): transition band is |z| <= 1/2
    else:
        pz = user(z)
    conds = []
    dRr = env.rows(dR)
    dSr = env.rows(dS)
    j = env.cx(0, 1)
    for i in range(N):
        shat = a['delta'][i] + a['s'][i] * pz - a['F'] * z
        kk = a['k'][i] * pz
        # the vectorised system acts bin-wise: row i of the (N, N) broadcast uses column i of the state ... only the diagonal is the physical system
        conds.append(env.eq(dRr[i][i], j * (Rv[i] * shat + Sv[i] * kk), scale=1e4))
        conds.append(env.eq(dSr[i][i], -(j * (Sv[i] * shat + Rv[i] * kk)), scale=1e4))
    env.check('right-hand side: R\' = j(s^ R + k S), S\' = -j(s^ S + k R) with s^ = delta + s*p(z) - F*z and k*p(z) for this apodisation', env.And(conds))


def scen_after(env, cfg):
    """after the ODE: H = S/R, output = ifft(fft(in) * ifftshift(H)) in every polarisation, and the conditional energy bound."""
    D = env.lib.devices
    _setup(env)
    N, pol = cfg.get('N', 4), cfg['pol']
    x, S = _field(env, N, pol)
    fc = env.real('fc', 1.9e14, 1.95e14)
    vd = env.real('vdneff', 1e-5, 1e-3)
    kL = env.real('kL', 0.1, 8)
    energy = cfg.get('energy', False)
    if env.symbolic and energy:
        from vf.core import ctx
        ctx().limits['ivp_R_one'] = True
    rec, saved = _patch(env)
    try:
        y, H = D.FBG(x, fc=fc, vdneff=vd, kL=kL, print_params=False, filtfilt=False, retH=True)
    finally:
        _unpatch(env, saved)
    Hs = env.items(H)
    if env.symbolic and not energy:
        from vf.core import R, C
        import z3
        st = [C(R(z3.Real(f'ivp_re{i}')), R(z3.Real(f'ivp_im{i}'))) for i in range(2 * N)]
        env.check('the returned response is rho = S/R of the final state', env.And([env.eq(Hs[i] * st[i], st[N + i], scale=10) for i in range(N)]))
    from vf.props.C02 import my_dft
    h = (N + 1) // 2
    Hun = Hs[N - h:] + Hs[:N - h]          # ifftshift
    ys = env.rows(y.signal)
    env.check('shape preserved', y.signal.shape == x.signal.shape)
    conds, XS, YS = [], [], []
    for p in range(pol):
        X = my_dft(env, S[p])
        Y = [a * b for a, b in zip(X, Hun)]
        exp = my_dft(env, Y, inverse=True)
        XS.append(X)
        YS.append(Y)
        conds += [env.eq(u, v, scale=30) for u, v in zip(ys[p], exp)]
    env.check('the output field is the input filtered by the returned H (ifft(fft(in)*ifftshift(H))) in every polarisation', env.And(conds))
    name = 'if |H| <= 1 at every frequency the output energy does not exceed the input energy'
    if not energy:
        return
    if not env.symbolic and env.impl == 'model':
        return          # the model's solve_ivp is a stub with an arbitrary state: only the real run has numbers here
    if not env.symbolic:
        passive = all(float(env.abs2(hh)) <= 1 + 1e-9 for hh in Hs)
        for p in range(pol):
            eo = float(sum(env.abs2(v) for v in ys[p]))
            ei = float(sum(env.abs2(v) for v in S[p]))
            env.check(f'{name} (polarisation {p})', (not passive) or eo <= ei * (1 + 1e-9) + 1e-12)
        return
    import z3
    from vf.core import SB
    for p in range(pol):
        X, Y = XS[p], YS[p]
        env.check(f'pol {p}: |X_k*H_k|^2 == |X_k|^2*|H_k|^2 in every bin', env.And([env.eq(env.abs2(yk), env.abs2(xk) * env.abs2(hk), scale=100)
                                                                                      for yk, xk, hk in zip(Y, X, Hun)]))
        env.check(f'pol {p}: Parseval on the way in: sum|X|^2 == N*sum|in|^2', env.eq(sum(env.abs2(v) for v in X), N * sum(env.abs2(v) for v in S[p]), scale=100))
        env.check(f'pol {p}: Parseval on the way out: sum|out|^2 == sum|X*H|^2/N', env.eq(sum(env.abs2(v) for v in ys[p]) * N, sum(env.abs2(v) for v in Y), scale=100))
        P = [z3.Real(f'P{p}_{k}') for k in range(N)]
        hh = [z3.Real(f'h{p}_{k}') for k in range(N)]
        Ein, Eout = z3.Real(f'Ein{p}'), z3.Real(f'Eout{p}')
        hyp = z3.And(*[q >= 0 for q in P], *[u >= 0 for u in hh], *[u <= 1 for u in hh], z3.Sum(*P) == N * Ein,
                     Eout * N == z3.Sum(*[q * u for q, u in zip(P, hh)]))
        env.check(f'{name} (polarisation {p})', SB(z3.Implies(hyp, Eout <= Ein)))


def configs(tier):
    q = tier == 'quick'
    out = []
    out.append(('routes-fc', scen_routes, dict(routes=['fc+kL', 'fc+L', 'fc+N']), {'validate': 1}))
    out.append(('routes-landa_D', scen_routes, dict(routes=['fc+kL', 'landa_D+kL', 'landa_D+L', 'landa_D+N']), {'validate': 1}))
    out.append(('reject-incomplete', scen_reject, {}, {'validate': 1}))
    for apo in ('uniform', 'parabolic', 'gaussian', 'rcos', 'callable'):
        out.append((f'ode-{apo}', scen_ode, dict(apo=apo), {'validate': 1}))
    for pol in (1, 2):
        out.append((f'after-ode-pol{pol}', scen_after, dict(pol=pol), {'validate': 1}))
        out.append((f'after-ode-energy-pol{pol}', scen_after, dict(pol=pol, energy=True), {'validate': 1}))
    if not q:
        # thorough: other record lengths (odd included) for everything after the ODE, and more validation samples per configuration
        # (records of fewer than 3 samples have no second derivative for the printed dispersion figure: FBG raises on them; the
        # property speaks of records of 2^8 samples and more)
        for N in (3, 8):
            out.append((f'after-ode-pol1-N{N}', scen_after, dict(pol=1, N=N), {'validate': 2}))
        out.append(('after-ode-pol2-N3', scen_after, dict(pol=2, N=3), {'validate': 2}))
        out.append(('after-ode-energy-pol1-N3', scen_after, dict(pol=1, N=3, energy=True), {'validate': 2}))
    from vf import history as _history        # call-history differential (vf/history.py)
    out += _history.configs_for('C16')
    return out
