"""C13 — analytic BER and receiver-noise formulas match closed forms and each other (partial claim)."""
ID = 'C13'
FUNCTIONS = [('utils', 'theory_BER'), ('utils', 'average_voltages'), ('utils', 'noise_variances'), ('utils', 'p_ase'),
             ('utils', 'optimum_threshold'), ('utils', 'Q'), ('ook', 'THRESHOLD_EST'), ('ook', 'BER_analizer'), ('ook', 'theory_BER'),
             ('ppm', 'THRESHOLD_EST'), ('ppm', 'BER_analizer'), ('ppm', 'theory_BER')]
BOUNDS = {'receiver model': 'P_avg, ER, G, NF, BW_opt > BW_el, r, R_L, T, NF_el, relative threshold: all symbolic; OOK and PPM (M in {2,4,16}, hard decision), '
                            'amplified and unamplified',
          'estimators': 'mu0 < mu1, s0, s1 > 0 symbolic; the library\'s own 1000-point grids executed in full; PPM hard-decision value against its '
                        'closed form in the estimated threshold at M = 4 (thorough 2, 4, 16): symbolic levels, and three concrete eyes with mu0 != 0',
          'theory functions': 'mu, s0, s1 symbolic; M in {2,4,8} plus the rejection of non powers of two in 1..20; soft-decision set-up at M in {4,16} (thorough 2..64), x in [-8,8]',
          'call histories': 'THRESHOLD_EST / BER_analizer on one eye object queried with another order before: three concrete (M1 -> M2) pairs (thorough six)'}
OUTSIDE = ['unamplified calls of average_voltages / noise_variances without G and BW_opt (they evaluate idb(G) and BW_el/BW_opt unconditionally and raise TypeError on the None defaults; the harness passes the neutral values G = 0 dB, BW_opt = BW_el)',
           'the numerical value of everything that goes through scipy.integrate.quad (soft decision: = Q(mu/sqrt(s0^2+s1^2)) for M = 2, soft <= hard); '
           'what is decided for ppm.theory_BER soft is the set-up: integrand at an arbitrary x, limits and prefactors are the documented ones',
           '"equals the true minimum within the grid error" and midpoint optimality for equal sigmas (need convexity of Q, not in the axiom table)',
           'monotonicity in mu and the [0, M/(2(M-1))] bound of the grid-minimum functions (ook/ppm theory_BER, PPM estimator): 1000-term '
           'minimum chains over erfc variables exceed the solver budget; their element-wise vectorisation and input validation are decided',
           'invariance of the estimators under a common shift of both levels (decided only through the threshold-in-range and error-expression clauses)']
ASSUMPTIONS = ['erfc axioms: 0 < erfc < 2, strictly decreasing, erfc(-x) = 2 - erfc(x), congruence; 10**x axioms incl. decade brackets',
               'Q(x) = erfc(x/2**0.5)/2 with 2**0.5 the double: comparisons involving it use a relative tolerance of 1e-9',
               'scipy.integrate.quad(f, a, b) returns the integral of f over [a, b] (symbolically: a fresh value; the recorded f, a, b are inspected)']
LIMITS = {'max_paths': 200, 'query_timeout_ms': 180000, 'max_branches': 6000}

H = '6.62607015e-34'
KB = '1.380649e-23'
QE = '1.602176634e-19'


def _params(env, amplify):
    p = dict(P_avg=env.real('P_avg', -50, 0), ER=env.real('ER', 3, 40), r=env.real('r', 0.05, 1), R_L=env.real('R_L', 10, 1e4),
             T=env.real('T', 0, 400), NF_el=env.real('NF_el', 0, 10), BW_el=env.real('BW_el', 1e8, 5e10))
    if amplify:
        p.update(G=env.real('G', 0, 40), NF=env.real('NF', 3, 10), BW_opt=env.real('BW_opt', 2e8, 2e11))
        env.assume(p['BW_opt'] > p['BW_el'])
    return p


def _Qf(env, x):
    return env.erfc(x / env.num(2 ** 0.5)) / 2


def _close(env, a, b, rel='1e-9'):
    """|a - b| <= rel * b for a positive reference b."""
    t = b * env.const(rel)
    return env.And(env.le(a - b, t, 1), env.le(b - a, t, 1))


def _scalar(env, v):
    return env.items(v)[0] if hasattr(v, 'ndim') and getattr(v, 'ndim', 0) else v


def scen_model(env, cfg):
    """utils.theory_BER evaluates the error expression on the levels of average_voltages and the variances of noise_variances."""
    U = env.lib.utils
    mod, M, amplify = cfg['mod'], cfg['M'], cfg['amplify']
    p = _params(env, amplify)
    thr = env.real('threshold', 0.05, 0.95)
    f0 = env.real('f0', 1.5e14, 2.5e14)
    lam = env.const('299792458') / f0
    kw = dict(ER=p['ER'], r=p['r'], R_L=p['R_L'])
    # unamplified receiver: average_voltages / noise_variances still evaluate idb(G) and BW_el/BW_opt, so neutral values are passed
    amp_kw = dict(amplify=True, G=p['G'], NF=p['NF'], BW_opt=p['BW_opt']) if amplify else dict(amplify=False, G=0, BW_opt=p['BW_el'])
    k0 = len(env.events('sqrt')) if env.symbolic else 0
    ber = _scalar(env, U.theory_BER(p['P_avg'], mod, M=M, decision='hard', threshold=thr, f0=f0, BW_el=p['BW_el'], T=p['T'], NF_el=p['NF_el'], **kw,
                                    **({k: v for k, v in amp_kw.items() if amplify or k == 'amplify'})))
    if env.symbolic:
        from vf import tf
        sq = [e for e in tf._entries('sqrt')]
        er = [e for e in tf._entries('erfc')]
    mu, mu_ase = U.average_voltages(p['P_avg'], mod, M=M, wavelength=lam, **kw, **amp_kw)
    S = U.noise_variances(p['P_avg'], mod, M=M, wavelength=lam, BW_el=p['BW_el'], T=p['T'], NF_el=p['NF_el'], **kw, **amp_kw)
    mu0, mu1 = env.items(mu)
    S0, S1 = env.items(S)
    x = thr * mu1 + (1 - thr) * mu0
    MM = 2 if mod == 'ook' else M
    names = ('the variances under the square roots of theory_BER are those of noise_variances (OFF level, ON level)',
             'the arguments of Q in theory_BER are (level - threshold)/sigma with the levels of average_voltages',
             'theory_BER combines the two Q values into the documented error expression')
    if env.symbolic:
        c2 = env.num(2 ** 0.5)
        env.check('theory_BER takes exactly two square roots (the two standard deviations) and evaluates Q twice', len(sq) == 2 and len(er) == 2)
        if len(sq) != 2 or len(er) != 2:
            return
        c0 = env.And(env.eq(sq[0].arg, S0, scale=1e-3), env.eq(sq[1].arg, S1, scale=1e-3))
        if hasattr(c0, 'rf'):
            # steer counterexamples towards error rates a double can resolve (Q arguments between 0.3 and 6); replay only
            import z3
            from vf.core import SB
            steer = [(p['P_avg'] <= -32).t, (p['P_avg'] >= -40).t, (p['T'] >= 250).t, (p['R_L'] >= 2000).t, (p['BW_el'] >= 1e10).t, (p['r'] >= 0.5).t]
            if amplify:
                steer += [(p['G'] <= 6).t, (p['G'] >= 3).t]
            c0 = SB(c0.t, c0.rt, z3.And(z3.Not(c0.t), *steer))
        env.check(names[0], c0)
        s0, s1 = sq[0].out, sq[1].out
        if mod == 'ook':
            a_on, a_off = er[0].arg, er[1].arg          # Q((mu_ON - x)/s1), Q((x - mu_OFF)/s0)
            env.check(names[1], env.And(env.eq(a_on * s1 * c2, mu1 - x, scale=10), env.eq(a_off * s0 * c2, x - mu0, scale=10)))
            env.check(names[2], env.eq(ber, (er[0].out / 2 + er[1].out / 2) / 2, scale=1))
        else:
            a_on, a_off = er[0].arg, er[1].arg          # Q((x - mu_ON)/s1), Q((x - mu_OFF)/s0)
            env.check(names[1], env.And(env.eq(a_on * s1 * c2, x - mu1, scale=10), env.eq(a_off * s0 * c2, x - mu0, scale=10)))
            q1, q0 = er[0].out / 2, er[1].out / 2
            env.check(names[2], env.eq(ber, (1 - q1 * (1 - q0) ** (MM - 1)) * MM / 2 / (MM - 1), scale=1))
        env.check('BER within [0, M/(2(M-1))]', env.And(ber >= 0, env.le(ber, env.const(str(MM / 2 / (MM - 1))), 1)))
    else:
        s0, s1 = env.sqrt(S0), env.sqrt(S1)
        if mod == 'ook':
            exp = (_Qf(env, (mu1 - x) / s1) + _Qf(env, (x - mu0) / s0)) / 2
        else:
            exp = (1 - _Qf(env, (x - mu1) / s1) * (1 - _Qf(env, (x - mu0) / s0)) ** (MM - 1)) * MM / 2 / (MM - 1)
        fb, fe = float(ber.n) if hasattr(ber, 'n') else float(ber), float(exp.n) if hasattr(exp, 'n') else float(exp)
        ok = abs(fb - fe) <= 1e-10 * max(fe, 1e-300) + 1e-300
        for nm in names:
            env.check(nm, ok)
        env.check('BER within [0, M/(2(M-1))]', 0 <= fb <= MM / 2 / (MM - 1) * (1 + 1e-9))


def scen_terms(env, cfg):
    """levels and the four variance terms against the stated physical formulas (so that a failure names the term)."""
    U = env.lib.utils
    mod, M, amplify = cfg['mod'], cfg['M'], cfg['amplify']
    p = _params(env, amplify)
    lam = env.real('wavelength', 1.2e-6, 1.7e-6)
    kw = dict(ER=p['ER'], r=p['r'], R_L=p['R_L'])
    amp_kw = dict(amplify=True, G=p['G'], NF=p['NF'], BW_opt=p['BW_opt']) if amplify else dict(amplify=False, G=0, BW_opt=p['BW_el'])
    mu, mu_ase = U.average_voltages(p['P_avg'], mod, M=M, wavelength=lam, **kw, **amp_kw)
    MM = 2 if mod == 'ook' else M
    mu0, mu1 = env.items(mu)
    er = env.pow10(p['ER'] / 10)
    g = env.pow10(p['G'] / 10) if amplify else 1
    pavg = env.pow10(p['P_avg'] / 10 - 3)
    if amplify:
        pase = env.pow10(p['NF'] / 10) * env.const(H) * (env.const('299792458') / lam) * (g - 1) * p['BW_opt']
        env.check('p_ase == NF*h*f0*(G-1)*BW_opt (the EDFA device model with BW_opt in place of fs)',
                  env.eq(U.p_ase(True, lam, p['G'], p['NF'], p['BW_opt']), pase, scale=1e-3))
    else:
        pase = 0 * pavg
        env.check('p_ase is 0 without amplifier', env.eq(U.p_ase(False), 0))
    env.check('ASE offset mu_ASE == r*p_ase*R_L', env.eq(mu_ase, p['r'] * pase * p['R_L'], scale=10))
    env.check('ON/OFF ratio before the ASE offset equals 10^(ER/10)', env.eq(mu1 - mu_ase, er * (mu0 - mu_ase), scale=10))
    env.check('average level: (mu_ON + (M-1)*mu_OFF)/M == r*G*p_avg*R_L + mu_ASE',
              env.eq(mu1 + (MM - 1) * mu0, MM * (p['r'] * g * pavg * p['R_L'] + mu_ase), scale=10))
    S = U.noise_variances(p['P_avg'], mod, M=M, wavelength=lam, BW_el=p['BW_el'], T=p['T'], NF_el=p['NF_el'], **kw, **amp_kw)
    fn = env.pow10(p['NF_el'] / 10)
    l = p['BW_el'] / p['BW_opt'] if amplify else 1
    for i, (s_i, m_i) in enumerate(zip(env.items(S), (mu0, mu1))):
        th = 4 * env.const(KB) * p['T'] * p['BW_el'] * p['R_L'] * fn
        sh = 2 * env.const(QE) * m_i * p['BW_el'] * p['R_L']
        sa = 2 * mu_ase * (m_i - mu_ase) * l if amplify else 0
        aa = mu_ase * mu_ase * (1 - l / 2) * l if amplify else 0
        cnd = env.eq(s_i, th + sh + sa + aa)
        if hasattr(cnd, 'rf'):
            import z3
            from vf.core import SB
            steer = [z3.Or((p['NF_el'] >= 3).t, (p['NF_el'] == 0).t), (p['T'] <= 5).t, (p['P_avg'] <= -30).t]
            if amplify:
                steer += [(p['G'] <= 3).t, (p['G'] >= 1).t]
            cnd = SB(cnd.t, cnd.rt, z3.And(z3.Not(cnd.t), *steer))     # replay steering only: a corner where every term is visible in doubles
        env.check(f'noise_variances[{i}] == thermal 4kB*T*B*R_L*Fn + shot 2e*mu*B*R_L + signal-ASE + ASE-ASE beating [V^2]', cnd)
    if not amplify:
        # agreement with the PD device model (C09): variances in A^2 over B times R_load^2
        S2 = U.noise_variances(p['P_avg'], mod, M=M, wavelength=lam, BW_el=p['BW_el'], T=p['T'], NF_el=0, **kw, **amp_kw)
        for s_i, m_i in zip(env.items(S2), (mu0, mu1)):
            pd_th = 4 * env.const(KB) * p['T'] * p['BW_el'] / p['R_L']            # PD: S_T with Fn = 1, B = BW_el
            pd_sh = 2 * env.const(QE) * (m_i / p['R_L']) * p['BW_el']              # PD: S_N with current mu/R_L, no dark current
            env.check('with NF_el = 0 the variances equal the PD device model\'s thermal + shot current variances times R_L^2',
                      env.eq(s_i, (pd_th + pd_sh) * p['R_L'] * p['R_L'], scale=1e-3))


def scen_monotone(env, cfg):
    U = env.lib.utils
    p = _params(env, False)
    thr = env.real('threshold', 0.05, 0.95)
    dP = env.real('dP', 0.01, 20)
    kw = dict(ER=p['ER'], r=p['r'], R_L=p['R_L'], BW_el=p['BW_el'], T=p['T'], NF_el=p['NF_el'])
    b1 = _scalar(env, U.theory_BER(p['P_avg'], 'ook', threshold=thr, **kw))
    b2 = _scalar(env, U.theory_BER(p['P_avg'] + dP, 'ook', threshold=thr, **kw))
    name = 'theory_BER decreases monotonically with received power (fixed relative threshold)'
    if env.symbolic:
        from vf import tf
        er = tf._entries('erfc')
        env.check('four Q evaluations', len(er) == 4)
        # both Q arguments grow with the received power (compared through their squares, all arguments are positive) => both Q values fall
        env.check('both arguments of Q are positive', env.And([e.arg > 0 for e in er]))
        hyp = [e.arg > 0 for e in er]
        for i in (0, 1):
            a, b = er[i].arg, er[i + 2].arg
            env.check(f'argument {i} of Q grows with the received power', a * a <= b * b)
            hyp.append(a * a <= b * b)
        # composition: given the (just proved) ordering of the arguments, Q decreasing gives the ordering of the error rates
        env.check(name, env.Implies(env.And(hyp), env.And([er[i].out >= er[i + 2].out for i in (0, 1)] + [env.le(b2, b1, 1)])))
    else:
        env.check(name, env.le(b2, b1, 1))


def scen_optimum(env, cfg):
    U = env.lib.utils
    M = cfg['M']
    mu0 = env.real('mu0', 0, 1)
    mu1 = env.real('mu1', 0.01, 5)
    env.assume(mu1 >= mu0 + env.const('0.01'))
    S0 = env.real('S0', 1e-4, 1)
    S1 = env.real('S1', 1e-4, 1)
    env.assume(env.Or(S1 >= S0 + env.const('1e-4'), S0 >= S1 + env.const('1e-4')))
    mod = 'ook' if M == 2 else 'ppm'
    t = U.optimum_threshold(mu0, mu1, S0, S1, mod, M)
    s0, s1 = env.sqrt(S0), env.sqrt(S1)
    lhs = (t - mu0) * (t - mu0) / (2 * S0) - (t - mu1) * (t - mu1) / (2 * S1)
    rhs = env.log((M - 1) * s1 / s0)
    env.check('optimum_threshold solves (M-1)*N(r;mu0,S0) = N(r;mu1,S1): (r-mu0)^2/2S0 - (r-mu1)^2/2S1 = ln((M-1)*s1/s0)',
              env.eq(lhs, rhs, scale=100))


def _eye(env, mu0, mu1, s0, s1):
    return env.lib.typing.eye(mu0=mu0, mu1=mu1, s0=s0, s1=s1, execution_time=0)


def scen_estimator(env, cfg):
    mod, M = cfg['mod'], cfg.get('M')
    L = env.lib.ook if mod == 'ook' else env.lib.ppm
    fx = cfg.get('fixed')           # concrete eye (levels away from zero): the 1000-point grid collapses, the closed form is decided at once
    mu0 = env.const(fx[0]) if fx else env.real('mu0', -1, 1)
    d = env.const(fx[1]) if fx else env.real('d', 0.05, 5)
    mu1 = mu0 + d
    s0 = env.const(fx[2]) if fx else env.real('s0', 0.01, 1)
    s1 = env.const(fx[3]) if fx else env.real('s1', 0.01, 1)
    e = _eye(env, mu0, mu1, s0, s1)
    th = L.THRESHOLD_EST(e) if mod == 'ook' else L.THRESHOLD_EST(e, M)
    env.check('the estimated threshold lies in [mu0, mu1]', env.And(env.le(mu0, th, 5), env.le(th, mu1, 5)))
    if mod != 'ook':
        # hard decision: the closed form in the estimated threshold (the threshold term itself is shared, so the 1000-point grid does not
        # have to be re-decided); bounds / monotonicity of the grid minimum stay outside (see OUTSIDE)
        if cfg.get('hard_form'):
            ber = L.BER_analizer('estimator', eye_obj=e, M=M, decision='hard')
            pe = 1 - _Qf(env, (th - mu1) / s1) * (1 - _Qf(env, (th - mu0) / s0)) ** (M - 1)
            env.check("BER_analizer('estimator', hard) == M/(2(M-1)) * (1 - Q((th-mu1)/s1) * (1-Q((th-mu0)/s0))^(M-1)) at th = THRESHOLD_EST "
                      "(depends on the levels only through th-mu0 and th-mu1)", env.eq(ber, pe * M / 2 / (M - 1), scale=1))
        return
    ber = L.BER_analizer('estimator', eye_obj=e)
    exp = (_Qf(env, (mu1 - th) / s1) + _Qf(env, (th - mu0) / s0)) / 2
    env.check("BER_analizer('estimator') is the error expression evaluated at THRESHOLD_EST", env.eq(ber, exp, scale=1))
    MM = 2 if mod == 'ook' else M
    env.check('estimated BER within [0, M/(2(M-1))]', env.And(ber >= 0, env.le(ber, env.const(str(MM / 2 / (MM - 1))), 1)))
    if cfg.get('shift'):
        sh = env.real('shift', -3, 3)
        e2 = _eye(env, mu0 + sh, mu1 + sh, s0, s1)
        th2 = L.THRESHOLD_EST(e2) if mod == 'ook' else L.THRESHOLD_EST(e2, M)
        ber2 = L.BER_analizer('estimator', eye_obj=e2) if mod == 'ook' else L.BER_analizer('estimator', eye_obj=e2, M=M, decision='hard')
        env.check('estimators depend only on mu1-mu0, s0, s1 (and M): shifting both levels shifts the threshold and leaves the BER unchanged',
                  env.And(env.eq(th2, th + sh, scale=5), env.eq(ber2, ber, scale=1)))


def scen_estimator_history(env, cfg):
    """The threshold / estimated BER of an eye depend only on (mu1-mu0, s0, s1, M): not on what was asked of the same eye object before.
    Concrete eye statistics (the 1000-point grid search with symbolic levels exceeds the solver budget, see OUTSIDE): the clause is a
    statement about call histories on one eye object, evaluated on the model and replayed on the real library."""
    P = env.lib.ppm
    mu0 = env.const(cfg['mu0'])
    d, s0, s1 = env.const(cfg['d']), env.const(cfg['s0']), env.const(cfg['s1'])
    M1, M2 = cfg['M1'], cfg['M2']
    e = _eye(env, mu0, mu0 + d, s0, s1)
    if cfg['first'] == 'threshold':
        P.THRESHOLD_EST(e, M1)
    else:
        P.BER_analizer('estimator', eye_obj=e, M=M1, decision=cfg['first'])
    th = P.THRESHOLD_EST(e, M2)
    fresh = _eye(env, mu0, mu0 + d, s0, s1)
    th_f = P.THRESHOLD_EST(fresh, M2)
    env.check(f'THRESHOLD_EST(eye, {M2}) is the same on an eye that was queried with M={M1} before and on a fresh eye with the same statistics',
              env.eq(th, th_f, scale=5))
    b = P.BER_analizer('estimator', eye_obj=e, M=M2, decision='hard')
    b_f = P.BER_analizer('estimator', eye_obj=_eye(env, mu0, mu0 + d, s0, s1), M=M2, decision='hard')
    env.check("BER_analizer('estimator', hard) likewise", env.eq(b, b_f, scale=1))
    z = _eye(env, env.const('0.0'), d, s0, s1)
    th_z = P.THRESHOLD_EST(z, M2)
    env.check('the threshold moves with the levels: threshold(mu0, mu0+d) == mu0 + threshold(0, d)', env.eq(th, mu0 + th_z, scale=5))
    env.check('the estimated threshold lies in [mu0, mu1]', env.And(env.le(mu0, th, 5), env.le(th, mu0 + d, 5)))


SOFT = "soft decision: P_e = M/(2(M-1)) * (1 - (2 pi)^(-1/2) * Integral over R of (1 - Q((mu1 + s1*x)/s0))^(M-1) * exp(-x^2/2) dx)"


def scen_soft_setup(env, cfg):
    """ppm.theory_BER(..., 'soft'): the quadrature itself (scipy quad) is outside the claim; what is decided for every mu1, s0, s1 is
    that the integral handed to it is the documented one (integrand at an arbitrary x, limits, prefactors).  Concrete runs compare the
    returned value with an independent numerical evaluation of the same formula."""
    P = env.lib.ppm
    M = cfg['M']
    mu = env.real('mu', 0.1, 5)
    s0 = env.real('s0', 0.05, 1)
    s1 = env.real('s1', 0.05, 1)
    b = P.theory_BER(mu, s0, s1, M, 'soft')
    b = _scalar(env, b)
    if env.symbolic:
        import z3
        from vf.core import SB
        q = [e[1] for e in env.events('quad')]
        ok = len(q) == 1 and q[0]['a'] == -float('inf') and q[0]['b'] == float('inf')
        if not ok:
            env.check(SOFT, False)
            return
        x = env.real('x', -8, 8)
        got = q[0]['f'](x)
        ref = (1 - _Qf(env, (mu + s1 * x) / s0)) ** (M - 1) * env.exp(-x * x / 2)
        c1 = env.eq(got, ref, scale=1)
        c2 = env.eq(b * (2 * (M - 1)), (1 - q[0]['out'] / env.sqrt(2 * env.pi())) * M, scale=2 * M)
        cnd = env.And(c1, c2)
        if isinstance(cnd, SB):
            # replay steering only: clearly different sigmas at a moderate signal-to-noise ratio, where a wrong integrand moves the value
            steer = [(s1 >= 2 * s0).t, (mu <= 6 * s1).t, (mu >= 2 * s1).t, (s0 >= env.const('0.08')).t]
            cnd = SB(cnd.t, cnd.rt, z3.And(z3.Not(cnd.t), *steer))
        env.check(SOFT, cnd)
        return
    import math
    import scipy.integrate as si
    fm, f0, f1 = float(mu), float(s0), float(s1)
    Qn = lambda t: 0.5 * math.erfc(t / math.sqrt(2))
    val = si.quad(lambda t: (1 - Qn((fm + f1 * t) / f0)) ** (M - 1) * math.exp(-t * t / 2), -math.inf, math.inf)[0]
    ref = (1 - val / math.sqrt(2 * math.pi)) * 0.5 * M / (M - 1)
    env.check(SOFT, abs(float(b) - ref) <= 1e-6 * max(ref, 1e-12) + 1e-13)


EST_SOFT = "BER_analizer('estimator', soft) sets up the same integral as theory_BER(mu1-mu0, s0, s1, M, 'soft')"


def scen_est_soft_setup(env, cfg):
    """the soft-decision estimator depends only on mu1-mu0, s0, s1 and M: its integrand, limits and prefactors are those of theory_BER."""
    P = env.lib.ppm
    M = cfg['M']
    mu0 = env.real('mu0', -1, 1)
    d = env.real('d', 0.1, 5)
    s0 = env.real('s0', 0.05, 1)
    s1 = env.real('s1', 0.05, 1)
    e = _eye(env, mu0, mu0 + d, s0, s1)
    if env.symbolic:
        # the threshold search (1000-point grid, decided in the estimator-ppm configurations) does not enter the soft value
        saved = P.THRESHOLD_EST
        P.THRESHOLD_EST = lambda eye_obj, M_: mu0 + d / 2
    try:
        b = _scalar(env, P.BER_analizer('estimator', eye_obj=e, M=M, decision='soft'))
    finally:
        if env.symbolic:
            P.THRESHOLD_EST = saved
    if env.symbolic:
        import z3
        from vf.core import SB
        q = [ev[1] for ev in env.events('quad')]
        ok = len(q) == 1 and q[0]['a'] == -float('inf') and q[0]['b'] == float('inf')
        if not ok:
            env.check(EST_SOFT, False)
            return
        x = env.real('x', -8, 8)
        got = q[0]['f'](x)
        ref = (1 - _Qf(env, (d + s1 * x) / s0)) ** (M - 1) * env.exp(-x * x / 2)
        cnd = env.And(env.eq(got, ref, scale=1),
                      env.eq(b * (2 * (M - 1)), (1 - q[0]['out'] / env.sqrt(2 * env.pi())) * M, scale=2 * M))
        if isinstance(cnd, SB):
            steer = [(s1 >= 2 * s0).t, (d <= 6 * s1).t, (d >= 2 * s1).t, (s0 >= env.const('0.08')).t]
            cnd = SB(cnd.t, cnd.rt, z3.And(z3.Not(cnd.t), *steer))
        env.check(EST_SOFT, cnd)
        return
    ref = P.theory_BER(d, s0, s1, M, 'soft')
    ref = float(_scalar(env, ref))
    env.check(EST_SOFT, abs(float(b) - ref) <= 1e-6 * max(ref, 1e-12) + 1e-13)


def scen_theory(env, cfg):
    kind = cfg['kind']
    if kind == 'reject':
        P = env.lib.ppm
        for M in range(2, 21):
            for dec in ('hard',):
                try:
                    P.theory_BER(env.const('1.0'), env.const('0.1'), env.const('0.1'), M, dec)
                    ok = True
                except ValueError:
                    ok = False
                env.check(f'ppm.theory_BER: M={M} accepted iff a power of two', ok == (M & (M - 1) == 0))
        try:
            P.theory_BER(1.0, 0.1, 0.1, 4, 'medium')
            ok = True
        except ValueError:
            ok = False
        env.check('unknown decision rejected', not ok)
        e = _eye(env, 0.0, 1.0, 0.1, 0.1)
        for bad in (3, 6):
            try:
                P.THRESHOLD_EST(e, bad)
                ok = True
            except ValueError:
                ok = False
            env.check(f'ppm.THRESHOLD_EST rejects M={bad}', not ok)
        return
    mu = env.real('mu', 0.1, 5)
    s0 = env.real('s0', 0.05, 1)
    s1 = env.real('s1', 0.05, 1)
    if kind == 'ook':
        O = env.lib.ook
        b = O.theory_BER(mu, s0, s1)
        mu2 = env.real('mu2', 0.1, 5)
        v = O.theory_BER([mu, mu2], s0, [s1, s1])
        env.check('ook.theory_BER vectorises element-wise', env.eqs(v, [b, O.theory_BER(mu2, s0, s1)], scale=1))
    else:
        P = env.lib.ppm
        M = cfg['M']
        b = P.theory_BER(mu, s0, s1, M, 'hard')
        mu2 = env.real('mu2', 0.1, 5)
        v = P.theory_BER([mu, mu2], [s0, s0], s1, M, 'hard')
        env.check('ppm.theory_BER vectorises element-wise', env.eqs(v, [b, P.theory_BER(mu2, s0, s1, M, 'hard')], scale=1))


def configs(tier):
    q = tier == 'quick'
    out = []
    for amplify in (False, True):
        out.append((f'model-ook-{"amp" if amplify else "noamp"}', scen_model, dict(mod='ook', M=None, amplify=amplify), {'validate': 2}))
        out.append((f'terms-ook-{"amp" if amplify else "noamp"}', scen_terms, dict(mod='ook', M=None, amplify=amplify), {'validate': 2}))
        for M in ((4,) if q else (2, 4, 16)):
            out.append((f'model-ppm{M}-{"amp" if amplify else "noamp"}', scen_model, dict(mod='ppm', M=M, amplify=amplify), {'validate': 2}))
            out.append((f'terms-ppm{M}-{"amp" if amplify else "noamp"}', scen_terms, dict(mod='ppm', M=M, amplify=amplify), {'validate': 2}))
    out.append(('monotone-in-power', scen_monotone, {}, {'validate': 2}))
    for M in ((2, 4) if q else (2, 4, 16, 256)):
        out.append((f'optimum-threshold-M{M}', scen_optimum, dict(M=M), {'validate': 2}))
    out.append(('estimator-ook', scen_estimator, dict(mod='ook', shift=False), {'validate': 2}))
    for M in ((4,) if q else (2, 4, 16)):
        out.append((f'estimator-ppm{M}', scen_estimator, dict(mod='ppm', M=M, shift=False), {'validate': 2}))
        out.append((f'estimator-ppm{M}-hard-form', scen_estimator, dict(mod='ppm', M=M, shift=False, hard_form=True), {'validate': 2}))
        for k, fx in enumerate((('-0.2', '1.0', '0.1', '0.15'), ('0.25', '1.0', '0.1', '0.1'), ('0.05', '0.6', '0.2', '0.1'))):
            out.append((f'estimator-ppm{M}-hard-form-fixed{k}', scen_estimator, dict(mod='ppm', M=M, shift=False, hard_form=True, fixed=fx), {'validate': 1}))
    for M1, M2, first in ((4, 64, 'threshold'), (2, 256, 'hard'), (64, 4, 'soft')) if q else \
            ((4, 64, 'threshold'), (2, 256, 'hard'), (64, 4, 'soft'), (8, 16, 'threshold'), (256, 2, 'hard'), (4, 8, 'soft')):
        out.append((f'estimator-history-ppm{M1}-then-{M2}-{first}', scen_estimator_history,
                    dict(M1=M1, M2=M2, first=first, mu0='0.25', d='1.0', s0='0.1', s1='0.15'), {'validate': 1}))
    out.append(('theory-reject', scen_theory, dict(kind='reject'), {}))
    out.append(('theory-ook', scen_theory, dict(kind='ook'), {'validate': 1}))
    for M in ((4,) if q else (2, 4, 8)):
        out.append((f'theory-ppm{M}', scen_theory, dict(kind='ppm', M=M), {'validate': 1}))
    for M in ((4, 16) if q else (2, 4, 8, 16, 64)):
        out.append((f'theory-ppm{M}-soft-setup', scen_soft_setup, dict(M=M), {'validate': 2}))
        out.append((f'estimator-ppm{M}-soft-setup', scen_est_soft_setup, dict(M=M), {'validate': 2}))
    return out
