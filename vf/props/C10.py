"""C10 — EDFA applies gain G to all of its input and adds ASE of the documented power."""
ID = 'C10'
FUNCTIONS = [('devices', 'EDFA'), ('devices', 'BPF'), ('typing', 'electrical_signal.__mul__'), ('typing', 'optical_signal.__init__'),
             ('utils', 'idb')]
BOUNDS = {'call-history differential': 'for the blocks of this property registered in vf/history.py (concrete orders / bandwidths / gains / gv configurations, symbolic samples): the call repeated in a session that first ran it with one parameter or one gv setting changed equals the call in a fresh library instance',
          'fields': 'N <= 2 (quick) / 3 (thorough) symbolic complex samples, one and two polarisations, with and without noise',
          'parameters': 'G in [0,40] dB, NF in [3,10] dB, wavelength, R (hence f0, fs): symbolic; the 4*N ASE draws are symbolic',
          'BW option': 'records of 17 samples at BW/fs in {0.25, 0.5, 0.75} (thorough: 0.1 .. 0.95; concrete Bessel design, symbolic samples, seed-replayed ASE)'}
OUTSIDE = ['sample-power statistics of an ASE realisation (the clause is decided as: the ASE term is sqrt(P_ase/4) times 4*N independent '
           'standard-normal draws, P_ase = NF*h*f0*(G-1)*fs)']
ASSUMPTIONS = ['np.random.randn returns independent standard normal draws (stub: arbitrary reals, one fresh variable per draw)',
               'sosfiltfilt is linear in its input for fixed coefficients (filter matrix taken from the real scipy)']
LIMITS = {'max_paths': 200, 'query_timeout_ms': 120000}

H_PLANCK = '6.62607015e-34'
C_LIGHT = '299792458'


def _field(env, n, pol, noise, vt='complex'):
    T = env.lib.typing
    mk = env.cplxs if vt == 'complex' else env.reals
    S = [mk(f'E.s{p}', n, -3, 3) for p in range(pol)]
    N = [mk(f'E.n{p}', n, -3, 3) for p in range(pol)] if noise else None
    if pol == 1:
        x = T.optical_signal(list(S[0]), list(N[0]) if noise else None)
    else:
        x = T.optical_signal([list(r) for r in S], [list(r) for r in N] if noise else None)
    return x, S, N


def scen_edfa(env, cfg):
    D, T = env.lib.devices, env.lib.typing
    n, pol, noise = cfg['n'], cfg['pol'], cfg['noise']
    lam = env.real('wavelength', 1.2e-6, 1.7e-6)
    Rr = env.real('R', 1e8, 1e11)
    gv = T.gv(sps=cfg.get('sps', 2), R=Rr, wavelength=lam)
    x, S, N = _field(env, n, pol, noise, cfg.get('vtype', 'complex'))
    snaps = [(x.signal, env.snap(x.signal)), (x.noise, env.snap(x.noise))]
    G = env.real('G', 0, 40)
    NF = env.real('NF', 3, 10)
    y = D.EDFA(x, G, NF)
    g = env.pow10(G / 10)
    sg = env.sqrt(g)
    env.check('EDFA always returns a two-polarisation signal of the input length with a noise component',
              y.n_pol == 2 and y.signal.shape == (2, n) and y.noise is not None and y.noise.shape == (2, n))
    ys, yn = env.rows(y.signal), env.rows(y.noise)
    conds = []
    for p in range(2):
        for k in range(n):
            if p < pol:
                conds.append(env.eq(ys[p][k], S[p][k] * sg, scale=1e3))
            else:
                conds.append(env.eq(ys[p][k], 0))
    env.check('signal part = input signal times sqrt(G) in the polarisations present at the input; y carries no signal for a 1-pol input',
              env.And(conds))
    # ASE realisation from the recorded draws
    fs = Rr * cfg.get('sps', 2)
    f0 = env.const(C_LIGHT) / lam
    P = env.pow10(NF / 10) * env.const(H_PLANCK) * f0 * (g - 1) * fs
    amp = env.sqrt(P / 4)
    if env.impl == 'model':
        calls = [e[1] for e in env.events('rand_call')]
        env.check('ASE: one call of randn(4, N): 4*N mutually independent standard-normal draws',
                  len(calls) == 1 and calls[0][0] == 'randn' and tuple(calls[0][1]) == (4, n))
    d = [[env.draw(r * n + k, 'randn') for k in range(n)] for r in range(4)]
    conds = []
    for p in range(2):
        for k in range(n):
            ase = env.cx(amp * d[p][k], amp * d[p + 2][k])
            exp = ase + (N[p][k] * sg if (noise and p < pol) else 0)
            conds.append(env.eq(yn[p][k], exp, scale=1e3))
    env.check('noise part = input noise amplified by sqrt(G) in the same polarisations + circular ASE sqrt(P_ase/4)*(d_re + j d_im) in both, '
              'P_ase = NF*h*f0*(G-1)*fs', env.And(conds))
    env.check('input untouched and not aliased by the output',
              env.And([env.untouched(a, s) for a, s in snaps] + [not env.shares(y.signal, x.signal)] +
                      ([not env.shares(y.noise, x.noise)] if noise else [])))


def scen_types(env, cfg):
    D, T = env.lib.devices, env.lib.typing
    for bad in (env.arr([1.0, 2.0]), [1.0, 2.0], T.electrical_signal([1.0, 2.0]), 3.0):
        try:
            D.EDFA(bad, 10, 5)
            ok = True
        except TypeError:
            ok = False
        env.check('non-optical input raises TypeError', not ok)


def scen_bw(env, cfg):
    """with a bandwidth argument the whole output is the BPF of the unfiltered output (same filter for signal and noise)."""
    D, T = env.lib.devices, env.lib.typing
    n, pol = cfg['n'], cfg['pol']
    T.gv(sps=2, R=env.const('1e9'))
    x, S, N = _field(env, n, pol, True)
    G = env.real('G', 0, 40)
    NF = env.real('NF', 3, 10)
    BW = env.num(cfg['BW'])
    np = env.np
    # the same ASE realisation twice: np.random.seed(s) restarts the draw stream (seed-replayed stubs / feeder)
    np.random.seed(11)
    y = D.EDFA(x, G, NF, BW=BW)
    np.random.seed(11)
    u = D.EDFA(x, G, NF)
    f = D.BPF(u, BW)
    env.check('EDFA(x, BW) == BPF(EDFA(x), BW) for the same ASE realisation: signal', env.eqs(y.signal, env.items(f.signal), scale=1e3))
    env.check('... and noise (the whole output is band-limited by the same optical filter)', env.eqs(y.noise, env.items(f.noise), scale=1e3))
    env.check('two-polarisation output of the input length', y.n_pol == 2 and y.signal.shape == (2, n))


def configs(tier):
    q = tier == 'quick'
    out = []
    for pol in (1, 2):
        for noise in (False, True):
            for n in ((1, 2) if q else (1, 2, 3, 5, 8)):
                if q and n == 2 and pol == 2 and not noise:
                    continue
                out.append((f'edfa-pol{pol}-{"noise" if noise else "clean"}-n{n}', scen_edfa, dict(n=n, pol=pol, noise=noise), {}))
    out.append(('edfa-sps3', scen_edfa, dict(n=1, pol=1, noise=True, sps=3), {}))
    for pol in (1, 2):
        for noise in (False, True):
            out.append((f'edfa-realfield-pol{pol}-{"noise" if noise else "clean"}', scen_edfa, dict(n=1, pol=pol, noise=noise, vtype='float'), {}))
    out.append(('edfa-types', scen_types, {}, {}))
    for pol in ((1,) if q else (1, 2)):
        for bw in ((0.5e9, 1e9, 1.5e9) if q else (0.2e9, 0.5e9, 0.8e9, 1e9, 1.2e9, 1.5e9, 1.9e9)):      # fs = 2e9: every realisable bandwidth class, fs/2 included
            out.append((f'edfa-bw{bw:g}-pol{pol}', scen_bw, dict(n=17, pol=pol, BW=bw), {'validate': 1}))
    from vf import history as _history        # call-history differential of this property's blocks (vf/history.py)
    out += _history.configs_for('C10')
    return out
