"""Call-history differential (C14: "deterministic blocks give identical results whatever was called before").

A *block* is one library call with concrete key-like parameters (orders, bandwidths, gains, pulse widths, the gv configuration)
and symbolic sample data.  For every single-parameter perturbation p the block is run in a fresh library instance as

        block(p)  ;  block(base)                       (history run)

and the second result is compared, for every value of the symbolic samples, with block(base) in another fresh instance.  Any
module-level cache, memo attribute or in-place update whose key omits the perturbed parameter makes the two differ; the solver
returns sample values for which they do, and the replay repeats both sessions on freshly imported real modules.
"""
BLOCKS = {}


class Block:
    def __init__(self, name, prop, base, perturb, inputs, run, scale=30):
        self.name, self.prop, self.base, self.perturb, self.inputs, self.run, self.scale = name, prop, base, perturb, inputs, run, scale
        BLOCKS[name] = self


def _gv(env, lib, p):
    kw = dict(sps=p['sps'], R=env.const(p['R']))
    if p.get('N'):
        kw['N'] = p['N']
    if p.get('wavelength'):
        kw['wavelength'] = env.const(p['wavelength'])
    lib.typing.gv(**kw)


def _flat(env, outs):
    r = []
    for o in outs:
        r += list(env.items(o)) if hasattr(o, 'shape') or isinstance(o, (list, tuple)) else [o]
    return r


def scen(env, cfg):
    b = BLOCKS[cfg['block']]
    x = b.inputs(env)
    ref = _flat(env, b.run(env, env.fresh_lib(), dict(b.base), x))
    for label, delta in b.perturb:
        lib = env.fresh_lib()
        p = dict(b.base)
        p.update(delta)
        first = b.run(env, lib, p, x)
        if delta.get('_scribble'):
            # the caller edits the arrays it was handed by the first call (they are its own): later results must not change
            for o in first:
                if hasattr(o, 'shape') and getattr(o, 'size', 0):
                    o[...] = o + 1
        got = _flat(env, b.run(env, lib, dict(b.base), x))
        ok = len(got) == len(ref) and env.And([env.eq(u, v, scale=b.scale) for u, v in zip(got, ref)])
        env.check(f'{b.name}: same result as in a fresh session when the session first ran it with {label}', ok)


def configs_for(prop):
    return [(f'history-diff-{b.name}', scen, dict(block=b.name), {'validate': 1}) for b in BLOCKS.values() if prop in (b.prop, 'C14')]


# ------------------------------------------------------------------------------------------------ blocks

def _cplx_field(n, name='h'):
    return lambda env: env.cplxs(name, n, -2, 2)


def _real_rec(n, name='h'):
    return lambda env: env.reals(name, n, -2, 2)


GV = dict(sps=2, R='8e9')
GVP = [('another sampling rate (R halved)', dict(R='4e9')), ('another sps at the same slot rate', dict(sps=4)),
       ('another sps at the same sampling rate', dict(sps=4, R='4e9'))]


def _run_lpf(env, lib, p, x):
    _gv(env, lib, p)
    y = lib.devices.LPF(lib.typing.electrical_signal(list(x)), env.num(p['BW']), p['n'])
    return [y.signal]


Block('LPF', 'C11', dict(GV, BW=2e9, n=4), GVP + [('another order', dict(n=2)), ('another bandwidth', dict(BW=1e9))], _real_rec(20), _run_lpf)


def _run_bpf(env, lib, p, x):
    _gv(env, lib, p)
    y = lib.devices.BPF(lib.typing.optical_signal(list(x)), env.num(p['BW']), p['n'])
    return [y.signal]


Block('BPF', 'C11', dict(GV, BW=4e9, n=4), GVP + [('another order', dict(n=2)), ('another bandwidth', dict(BW=2e9))], _cplx_field(20), _run_bpf)


def _run_pd(env, lib, p, x):
    _gv(env, lib, p)
    y = lib.devices.PD(lib.typing.optical_signal(list(x)), BW=env.num(p['BW']), r=env.const(p['r']), include_noise='ase-only', i_dark=0)
    return [y.signal]


Block('PD', 'C09', dict(GV, BW=2e9, r='0.8'), GVP + [('another responsivity', dict(r='0.5')), ('another bandwidth', dict(BW=1e9))],
      _cplx_field(20), _run_pd)


def _run_dac_gauss(env, lib, p, x):
    _gv(env, lib, p)
    y = lib.devices.DAC([0, 1, 0, 0], pulse_shape='gaussian', T=p['T'], m=p['m'], c=env.const(p['c']))
    return [y.signal]


Block('DAC-gaussian', 'C05', dict(sps=8, R='1e9', T=8, m=1, c='0.0'),
      [('another pulse width T', dict(T=4)), ('another order m', dict(m=2)), ('another chirp c', dict(c='1.0')), ('another sps', dict(sps=16)),
       ('another slot rate', dict(R='2e9'))], lambda env: [], _run_dac_gauss, scale=3)


def _run_edfa(env, lib, p, x):
    _gv(env, lib, p)
    env.np_of(lib).random.seed(5)
    y = lib.devices.EDFA(lib.typing.optical_signal(list(x)), env.const(p['G']), env.const(p['NF']))
    return [y.signal, y.noise]


Block('EDFA', 'C10', dict(sps=2, R='8e9', wavelength='1550e-9', G='20', NF='5'),
      [('another carrier wavelength', dict(wavelength='1310e-9')), ('another sampling rate', dict(R='4e9')), ('another gain', dict(G='10')),
       ('another noise figure', dict(NF='4'))], _cplx_field(2), _run_edfa, scale=1e3)


def _run_fiber(env, lib, p, x):
    _gv(env, lib, p)
    y = lib.devices.FIBER(lib.typing.optical_signal(list(x)), env.const(p['L']), beta_2=env.const(p['b2']), beta_3=env.const(p['b3']))
    return [y.signal]


Block('FIBER-linear', 'C08', dict(sps=2, R='40e9', L='50', b2='-20', b3='0.1'),
      [('another sampling rate (same record length)', dict(R='10e9')), ('another length', dict(L='10')), ('another beta_2', dict(b2='5'))],
      _cplx_field(4), _run_fiber)


def _run_dm(env, lib, p, x):
    _gv(env, lib, p)
    y = lib.devices.DM(lib.typing.optical_signal(list(x)), env.const(p['D']))
    return [y.signal]


Block('DM', 'C07', dict(sps=3, R='40e9', N=1, D='100'),
      [('another sampling rate (same record length)', dict(R='10e9')), ('no slot count in gv', dict(N=None)), ('another D', dict(D='-30'))],
      _cplx_field(3), _run_dm)


def _run_dec2bin(env, lib, p, x):
    return [lib.utils.dec2bin(p['v'], p['d'])]


Block('dec2bin', 'C19', dict(v=5, d=4), [('the same arguments, the caller then editing the array it received', dict(_scribble=True)),
                                          ('another value', dict(v=9)), ('another width', dict(d=6))], lambda env: [], _run_dec2bin, scale=1)


def _run_mzm(env, lib, p, x):
    _gv(env, lib, p)
    y = lib.devices.MZM(lib.typing.optical_signal(list(x)), env.const(p['u']), Vpi=env.const('5'), BW=env.num(p['BW']))
    return [y.signal]


Block('MZM-BW', 'C06', dict(GV, BW=4e9, u='1.5'), GVP + [('another drive', dict(u='0.5'))], _cplx_field(20), _run_mzm)


def _run_fbg(env, lib, p, x):
    _gv(env, lib, p)
    D = lib.devices
    if env.impl == 'model':
        np = lib.np()
        D.tau_g = lambda H, fs: np.zeros(H.size - 1)               # printed-summary helpers (unwrap/angle are outside the model)
        D.dispersion = lambda H, fs, f0: np.zeros(H.size - 2)
        D.si = lambda *a, **k: '<si>'
    y, H = D.FBG(lib.typing.optical_signal(list(x)), fc=lib.typing.gv.f0, vdneff=env.const(p['vdneff']), kL=env.const(p['kL']),
                 apodization=p['apod'], print_params=False, filtfilt=False, retH=True)
    return [y.signal, H]


Block('FBG', 'C16', dict(sps=4, R='1e10', vdneff='1e-4', kL='2', apod='uniform'),
      [('another sampling rate (same record length)', dict(R='2.5e10'))],        # one perturbation: every FBG call forks on its printed summary
      _cplx_field(4), _run_fbg, scale=30)
