"""Symbolic scalar tower and path-forking executor (DESIGN.md §1.2).

Scalars
  R   real  = num/den, num and den are either `Fraction` (concrete) or z3 Real terms
  C   complex = (re, im) pair of R
  SI  symbolic integer (z3 Int term);  concrete integers stay Python ints
  SB  symbolic Boolean (z3 Bool term); concrete Booleans stay Python bools
  BV  symbolic machine word (z3 BitVec) used for the PRBS shift register

None of these subclasses float/int: a C function that receives one raises
TypeError instead of silently reading a payload.  `isinstance` is replaced in
the loaded modules' builtins by `vf_isinstance` so that the library's own type
validation sees R as float, SI/BV as int, C as complex.
"""
from __future__ import annotations
import builtins
import math
import os
import time
from fractions import Fraction as Fr

import z3

ZERO = Fr(0)
ONE = Fr(1)


class EncodingGap(Exception):
    """Something outside the modelled surface was reached: the check is inconclusive."""


class NonFinite(ArithmeticError):
    """An array operation produced inf/nan in numpy (division by zero ...): the model stops here."""


class PathAbort(BaseException):
    """Raised inside a path to abandon it (infeasible, limit reached, assume(False))."""


class LimitHit(BaseException):
    pass


# --------------------------------------------------------------------------- terms

def _isz(t):
    return isinstance(t, z3.ExprRef)


def rv(fr):
    """z3 numeral for a Fraction."""
    if fr.denominator == 1:
        return z3.RealVal(fr.numerator)
    return z3.Q(fr.numerator, fr.denominator)


def tz(t):
    return t if _isz(t) else rv(t)


def tadd(a, b):
    ca, cb = not _isz(a), not _isz(b)
    if ca and cb:
        return a + b
    if ca:
        return b if a == 0 else rv(a) + b
    if cb:
        return a if b == 0 else a + rv(b)
    return a + b


def tneg(a):
    return -a


def tsub(a, b):
    ca, cb = not _isz(a), not _isz(b)
    if ca and cb:
        return a - b
    if cb:
        return a if b == 0 else a - rv(b)
    if ca:
        return -b if a == 0 else rv(a) - b
    if a.eq(b):
        return ZERO
    return a - b


def tmul(a, b):
    ca, cb = not _isz(a), not _isz(b)
    if ca and cb:
        return a * b
    if ca:
        if a == 0:
            return ZERO
        if a == 1:
            return b
        if a == -1:
            return -b
        return rv(a) * b
    if cb:
        if b == 0:
            return ZERO
        if b == 1:
            return a
        if b == -1:
            return -a
        return a * rv(b)
    return a * b


def to_fr(x):
    if isinstance(x, Fr):
        return x
    if isinstance(x, bool):
        return Fr(int(x))
    if isinstance(x, int):
        return Fr(x)
    if isinstance(x, float):
        if math.isnan(x) or math.isinf(x):
            raise EncodingGap(f'non-finite float {x!r} reached the exact-real engine')
        return Fr(x)
    if isinstance(x, str):
        return Fr(x)
    raise TypeError(x)


# --------------------------------------------------------------------------- context

class Ctx:
    """State of one execution path."""

    def __init__(self, prefix=(), limits=None):
        self.prefix = list(prefix)
        self.pos = 0
        self.decisions = []          # Booleans actually taken (== prefix then new ones)
        self.pc = []                 # z3 Bools: branch decisions + assumptions
        self.pc_notes = []
        self.defs = []               # definedness side conditions (denominators != 0 ...)
        self.axioms = []             # facts about fresh variables (sqrt, cos, ...)
        self.alternatives = []       # prefixes to explore later
        self.events = []             # (kind, payload) log: draws, warnings, writes, div
        self.fresh = 0
        self.registry = {}           # transcendental applications, see tf.py
        self.limits = limits or {}
        self.nbranch = 0
        self.solver_time = 0.0
        self.queries = 0
        self.unknown_feas = 0
        self.inputs = {}             # name -> z3 const (harness inputs and stub draws)
        self.mode = 'symbolic'

    def fresh_name(self, base):
        self.fresh += 1
        return f'{base}!{self.fresh}'

    def facts(self):
        return self.pc + self.defs + self.axioms


_cur = None


def ctx() -> Ctx:
    if _cur is None:
        raise RuntimeError('no symbolic context active')
    return _cur


def set_ctx(c):
    global _cur
    _cur = c


def have_ctx():
    return _cur is not None


FEAS_TIMEOUT_MS = 4000


# a single non-linear query can otherwise take every byte of the machine (a 62 GB host was exhausted by one worker): past the
# cap z3 gives up on the query, which is reported as `unknown` like a timeout
z3.set_param('memory_max_size', int(os.environ.get('VERIF_Z3_MEM_MB', '3500')))


def safe_check(s):
    try:
        return str(s.check())
    except z3.Z3Exception:
        return 'unknown'


def _check(facts, extra, timeout_ms):
    c = ctx()
    s = z3.Solver()
    s.set('timeout', timeout_ms)
    for f in facts:
        s.add(f)
    for f in extra:
        s.add(f)
    t0 = time.time()
    r = safe_check(s)
    c.solver_time += time.time() - t0
    c.queries += 1
    return str(r), s


def _abstract_ite_conditions(term):
    """Replace every atom over the reals (a Boolean application with a real-sorted argument) by an unconstrained Boolean,
    the same one for the same atom.  Valid / unsatisfiable after this abstraction implies valid / unsatisfiable before it."""
    atoms, seen, todo = {}, set(), [term]
    while todo:
        t = todo.pop()
        if t.get_id() in seen:
            continue
        seen.add(t.get_id())
        if z3.is_app(t):
            ch = t.children()
            if z3.is_bool(t) and any(z3.is_real(u) for u in ch):
                atoms.setdefault(t.get_id(), t)
                continue
            todo.extend(ch)
    if not atoms:
        return term
    subs = [(a0, z3.Bool(f'__atom_{i}')) for i, a0 in atoms.items()]
    return z3.substitute(term, *subs)


def branch(term) -> bool:
    """Decide a symbolic condition on the current path, forking if both sides are feasible."""
    c = ctx()
    raw = term
    term = z3.simplify(term)
    if z3.is_true(term):
        return True
    if z3.is_false(term):
        return False
    # conditions that are valid / unsatisfiable on their own (e.g. the range of an ite chain of constants) need no facts:
    # deciding them without the path's nonlinear context keeps the solver from answering `unknown` (deterministic in the
    # term, so re-executions of the path take the same shortcut and the decision prefix stays aligned)
    ab = _abstract_ite_conditions(raw)          # before simplification: shared sub-terms keep their identity
    if _check([], [z3.Not(ab)], 1000)[0] == 'unsat':
        return True
    if _check([], [ab], 1000)[0] == 'unsat':
        return False
    c.nbranch += 1
    maxb = c.limits.get('max_branches', 400)
    if c.nbranch > maxb:
        raise LimitHit(f'more than {maxb} symbolic branches on one path')
    if c.pos < len(c.prefix):
        d = c.prefix[c.pos]
        c.pos += 1
        c.decisions.append(d)
        c.pc.append(term if d else z3.Not(term))
        return d
    facts = c.facts()
    ft = c.limits.get('feas_timeout_ms', FEAS_TIMEOUT_MS)
    r_true, _ = _check(facts, [term], ft)
    if r_true == 'unsat':
        d = False
        c.pos += 1
        c.prefix.append(d)
        c.decisions.append(d)
        c.pc.append(z3.Not(term))
        return d
    if r_true == 'unknown':
        c.unknown_feas += 1
    r_false, _ = _check(facts, [z3.Not(term)], ft)
    if r_false == 'unknown':
        c.unknown_feas += 1
    if r_false != 'unsat':
        c.alternatives.append(list(c.decisions) + [False])
    d = True
    c.pos += 1
    c.prefix.append(d)
    c.decisions.append(d)
    c.pc.append(term)
    return d


def assume(cond, note=None):
    """Add an assumption to the current path (placed before the code it constrains)."""
    c = ctx()
    if isinstance(cond, SB):
        c.pc.append(cond.t)
        c.pc_notes.append(note)
    elif cond is True:
        return
    elif cond is False:
        raise PathAbort('assume(False)')
    else:
        raise TypeError(cond)


def event(kind, payload=None):
    if _cur is not None:
        _cur.events.append((kind, payload))


# --------------------------------------------------------------------------- SB

class SB:
    """Symbolic Boolean.  `rt`/`rf` optionally carry *robust* versions of "true"/"false" (equalities violated
    by a margin, see Env.eq) used only to pick counterexamples that survive floating-point replay."""
    __slots__ = ('t', 'rt', 'rf')
    __array_priority__ = 1000

    def __init__(self, t, rt=None, rf=None):
        self.t = t
        self.rt = rt
        self.rf = rf

    def robust_true(self):
        return self.rt if self.rt is not None else self.t

    def robust_false(self):
        return self.rf if self.rf is not None else z3.Not(self.t)

    def __bool__(self):
        return branch(self.t)

    @staticmethod
    def lift(x):
        if isinstance(x, SB):
            return x.t
        if isinstance(x, (bool,)):
            return z3.BoolVal(x)
        if isinstance(x, int) and x in (0, 1):
            return z3.BoolVal(bool(x))
        if isinstance(x, SI):
            return x.t != 0
        if isinstance(x, R):
            return (x != 0).t if isinstance(x != 0, SB) else z3.BoolVal(x != 0)
        raise TypeError(f'cannot read {type(x).__name__} as Boolean')

    def __and__(self, o):
        if isinstance(o, ndarray_types()):
            return NotImplemented
        if o is True:
            return self
        if o is False:
            return False
        return SB(z3.And(self.t, SB.lift(o)))
    __rand__ = __and__

    def __or__(self, o):
        if isinstance(o, ndarray_types()):
            return NotImplemented
        if o is True:
            return True
        if o is False:
            return self
        return SB(z3.Or(self.t, SB.lift(o)))
    __ror__ = __or__

    def __xor__(self, o):
        if isinstance(o, ndarray_types()):
            return NotImplemented
        return SB(z3.Xor(self.t, SB.lift(o)))
    __rxor__ = __xor__

    def __invert__(self):
        return SB(z3.Not(self.t), self.rf, self.rt)

    def __eq__(self, o):
        if isinstance(o, ndarray_types()):
            return NotImplemented
        if isinstance(o, bool):
            return self if o else ~self
        if isinstance(o, SB):
            return SB(self.t == o.t,
                      z3.Or(z3.And(self.robust_true(), o.robust_true()), z3.And(self.robust_false(), o.robust_false())),
                      z3.Or(z3.And(self.robust_true(), o.robust_false()), z3.And(self.robust_false(), o.robust_true())))
        return self.as_int() == o

    def __ne__(self, o):
        r = self.__eq__(o)
        if r is NotImplemented:
            return r
        return ~r if isinstance(r, SB) else (not r)

    __hash__ = None

    def as_int(self):
        return SI(z3.If(self.t, z3.IntVal(1), z3.IntVal(0)))

    def _ar(self, o, op, rev=False):
        if isinstance(o, ndarray_types()):
            return NotImplemented
        a = self.as_int()
        if isinstance(o, SB):
            o = o.as_int()
        return getattr(a, op)(o)

    def __add__(self, o): return self._ar(o, '__add__')
    def __radd__(self, o): return self._ar(o, '__radd__')
    def __sub__(self, o): return self._ar(o, '__sub__')
    def __rsub__(self, o): return self._ar(o, '__rsub__')
    def __mul__(self, o): return self._ar(o, '__mul__')
    def __rmul__(self, o): return self._ar(o, '__rmul__')
    def __truediv__(self, o): return self._ar(o, '__truediv__')
    def __rtruediv__(self, o): return self._ar(o, '__rtruediv__')
    def __lt__(self, o): return self._ar(o, '__lt__')
    def __le__(self, o): return self._ar(o, '__le__')
    def __gt__(self, o): return self._ar(o, '__gt__')
    def __ge__(self, o): return self._ar(o, '__ge__')
    def __neg__(self): return -self.as_int()
    def __abs__(self): return self.as_int()

    def __repr__(self):
        return f'SB({self.t})'

    def __format__(self, spec):
        return placeholder(self, spec)

    # numpy-scalar conveniences
    def any(self): return self
    def all(self): return self
    ndim = 0
    size = 1
    shape = ()


def sb_and(xs):
    sbs = []
    for x in xs:
        if isinstance(x, SB):
            sbs.append(x)
        elif not x:
            return False
    if not sbs:
        return True
    if len(sbs) == 1:
        return sbs[0]
    rob = any(x.rt is not None or x.rf is not None for x in sbs)
    if not rob:
        return SB(z3.And(*[x.t for x in sbs]))
    return SB(z3.And(*[x.t for x in sbs]), z3.And(*[x.robust_true() for x in sbs]), z3.Or(*[x.robust_false() for x in sbs]))


def sb_or(xs):
    sbs = []
    for x in xs:
        if isinstance(x, SB):
            sbs.append(x)
        elif x:
            return True
    if not sbs:
        return False
    if len(sbs) == 1:
        return sbs[0]
    rob = any(x.rt is not None or x.rf is not None for x in sbs)
    if not rob:
        return SB(z3.Or(*[x.t for x in sbs]))
    return SB(z3.Or(*[x.t for x in sbs]), z3.Or(*[x.robust_true() for x in sbs]), z3.And(*[x.robust_false() for x in sbs]))


def sb_not(x):
    return ~x if isinstance(x, SB) else (not x)


def sb_implies(a, b):
    return sb_or([sb_not(a), b])


def ite(c, a, b):
    """if-then-else over the scalar tower."""
    if not isinstance(c, SB):
        return a if c else b
    if isinstance(a, C) or isinstance(b, C):
        a, b = C.of(a), C.of(b)
        return C(ite(c, a.re, b.re), ite(c, a.im, b.im))
    if isinstance(a, (SB, bool)) and isinstance(b, (SB, bool)):
        return SB(z3.If(c.t, SB.lift(a), SB.lift(b)))
    if isinstance(a, (R, Fr, float)) or isinstance(b, (R, Fr, float)):
        a, b = R.of(a), R.of(b)
        if _same(a.d, b.d):
            return R(z3.If(c.t, tz(a.n), tz(b.n)), a.d)
        return R(z3.If(c.t, tz(a.n) * tz(b.d), tz(b.n) * tz(a.d)), tmul(a.d, b.d))
    if isinstance(a, BV) or isinstance(b, BV):
        w = a.w if isinstance(a, BV) else b.w
        return BV(z3.If(c.t, BV.lift(a, w), BV.lift(b, w)), w)
    if isinstance(a, (SB, bool)):
        a = SI.lift(a)
    if isinstance(b, (SB, bool)):
        b = SI.lift(b)
    return SI(z3.If(c.t, SI.lift(a), SI.lift(b)))



def _sym_scalar(x):
    return isinstance(x, (SI, R)) and not getattr(x, 'concrete', False)


def vf_min(*a, **k):
    """builtin min over symbolic scalars without forking: min(a, b) = b if b < a else a (first minimal element wins)."""
    if k or len(a) < 2 or not any(_sym_scalar(x) for x in a) or not all(isinstance(x, (int, float, Fr, SI, R)) for x in a):
        return min(*a, **k)
    r = a[0]
    for x in a[1:]:
        r = ite(x < r, x, r)
    return r


def vf_max(*a, **k):
    if k or len(a) < 2 or not any(_sym_scalar(x) for x in a) or not all(isinstance(x, (int, float, Fr, SI, R)) for x in a):
        return max(*a, **k)
    r = a[0]
    for x in a[1:]:
        r = ite(x > r, x, r)
    return r


def _same(a, b):
    if _isz(a) and _isz(b):
        return a.eq(b)
    if not _isz(a) and not _isz(b):
        return a == b
    return False


# --------------------------------------------------------------------------- SI

class SI:
    """Symbolic integer."""
    __slots__ = ('t',)
    __array_priority__ = 1000

    def __init__(self, t):
        self.t = t

    @staticmethod
    def lift(x):
        if isinstance(x, SI):
            return x.t
        if isinstance(x, bool):
            return z3.IntVal(int(x))
        if isinstance(x, int):
            return z3.IntVal(x)
        if isinstance(x, SB):
            return x.as_int().t
        raise TypeError(x)

    @staticmethod
    def _ok(o):
        return isinstance(o, (int, SI, SB)) and not isinstance(o, ndarray_types())

    def _bin(self, o, f, rev=False):
        if isinstance(o, ndarray_types()):
            return NotImplemented
        if isinstance(o, (R, C, Fr, float, complex)):
            return NotImplemented if isinstance(o, (R, C)) else getattr(R.of(self), f)(o)
        if not SI._ok(o):
            return NotImplemented
        a, b = self.t, SI.lift(o)
        if rev:
            a, b = b, a
        return a, b

    def __add__(self, o):
        r = self._bin(o, '__add__')
        return r if not isinstance(r, tuple) else SI(r[0] + r[1])
    __radd__ = __add__

    def __sub__(self, o):
        r = self._bin(o, '__sub__')
        return r if not isinstance(r, tuple) else SI(r[0] - r[1])

    def __rsub__(self, o):
        r = self._bin(o, '__rsub__', True)
        return r if not isinstance(r, tuple) else SI(r[0] - r[1])

    def __mul__(self, o):
        r = self._bin(o, '__mul__')
        return r if not isinstance(r, tuple) else SI(r[0] * r[1])
    __rmul__ = __mul__

    def __neg__(self):
        return SI(-self.t)

    def __pos__(self):
        return self

    def __abs__(self):
        return SI(z3.If(self.t >= 0, self.t, -self.t))

    def __floordiv__(self, o):
        if isinstance(o, int) and not isinstance(o, bool) and o > 0:
            return SI(self.t / z3.IntVal(o))       # z3 int division is floor for positive divisors
        if isinstance(o, SI):
            assume_def(o.t > 0, 'floor division by a positive integer')
            return SI(self.t / o.t)
        raise EncodingGap('SI // non-positive or non-integer')

    def __rfloordiv__(self, o):
        if isinstance(o, int):
            assume_def(self.t > 0, 'floor division by a positive integer')
            return SI(z3.IntVal(o) / self.t)
        raise EncodingGap('x // SI')

    def __mod__(self, o):
        if isinstance(o, int) and not isinstance(o, bool) and o > 0:
            return SI(self.t % z3.IntVal(o))
        if isinstance(o, SI):
            assume_def(o.t > 0, 'modulo by a positive integer')
            return SI(self.t % o.t)
        raise EncodingGap('SI % non-positive or non-integer')

    def __rmod__(self, o):
        if isinstance(o, int):
            assume_def(self.t > 0, 'modulo by a positive integer')
            return SI(z3.IntVal(o) % self.t)
        raise EncodingGap('x % SI')

    def __truediv__(self, o):
        if isinstance(o, ndarray_types()):
            return NotImplemented
        return R.of(self) / o

    def __rtruediv__(self, o):
        if isinstance(o, ndarray_types()):
            return NotImplemented
        return R.of(o) / R.of(self)

    def __pow__(self, o):
        if isinstance(o, int) and o >= 0:
            r = 1
            for _ in range(o):
                r = r * self
            return r
        return R.of(self) ** o

    def __rpow__(self, o):
        return R.of(o) ** R.of(self)

    def _cmp(self, o, f):
        if isinstance(o, ndarray_types()):
            return NotImplemented
        if isinstance(o, (R, Fr, float)):
            return getattr(R.of(self), f)(o)
        if isinstance(o, C):
            return NotImplemented
        if not SI._ok(o):
            return NotImplemented
        return SB(getattr(self.t, f)(SI.lift(o)))

    def __lt__(self, o): return self._cmp(o, '__lt__')
    def __le__(self, o): return self._cmp(o, '__le__')
    def __gt__(self, o): return self._cmp(o, '__gt__')
    def __ge__(self, o): return self._cmp(o, '__ge__')

    def __eq__(self, o):
        if o is None or isinstance(o, str):
            return False
        r = self._cmp(o, '__eq__')
        return r

    def __ne__(self, o):
        if o is None or isinstance(o, str):
            return True
        r = self._cmp(o, '__ne__')
        return r

    __hash__ = None

    def __bool__(self):
        return branch(self.t != 0)

    def __index__(self):
        return concretise(self)

    def __int__(self):
        return concretise(self)

    def __repr__(self):
        return f'SI({self.t})'

    def __format__(self, spec):
        return placeholder(self, spec)

    def __str__(self):
        return placeholder(self, '')

    # numpy-scalar conveniences
    real = property(lambda s: s)
    imag = property(lambda s: 0)
    ndim = 0
    size = 1
    shape = ()


def assume_def(term, note):
    c = ctx()
    c.defs.append(term)
    c.events.append(('def', (note, term)))


def concretise(x):
    """Turn a symbolic integer into a concrete one by forking over its feasible values.

    Values are tried in increasing order (the minimum feasible value is found with the
    solver), so re-executions of the same decision prefix make the same choices."""
    c = ctx()
    if isinstance(x, int):
        return x
    t = x.t
    lim = c.limits.get('max_concretise', 64)
    tried = 0
    while True:
        tried += 1
        if tried > lim:
            raise LimitHit('concretise: too many feasible values for a symbolic integer')
        facts = c.facts()
        r, s = _check(facts, [], FEAS_TIMEOUT_MS)
        if r == 'unsat':
            raise PathAbort('concretise: no feasible value left')
        if r != 'sat':
            raise LimitHit('concretise: solver unknown')
        v = s.model().eval(t, model_completion=True).as_long()
        while True:
            r2, s2 = _check(facts, [t < z3.IntVal(v)], FEAS_TIMEOUT_MS)
            if r2 == 'sat':
                v = s2.model().eval(t, model_completion=True).as_long()
            elif r2 == 'unsat':
                break
            else:
                raise LimitHit('concretise: solver unknown while minimising')
        if branch(t == z3.IntVal(v)):
            return v


# --------------------------------------------------------------------------- BV

class BV:
    """Symbolic machine word with Python-int-compatible semantics while values stay in range."""
    __slots__ = ('t', 'w')

    def __init__(self, t, w):
        self.t, self.w = t, w

    @staticmethod
    def lift(x, w):
        if isinstance(x, BV):
            if x.w != w:
                raise EncodingGap('BV width mismatch')
            return x.t
        if isinstance(x, bool):
            x = int(x)
        if isinstance(x, int):
            return z3.BitVecVal(x, w)
        raise TypeError(x)

    def _b(self, o, f):
        if isinstance(o, ndarray_types()):
            return NotImplemented
        if not isinstance(o, (int, BV)):
            return NotImplemented
        return BV(f(self.t, BV.lift(o, self.w)), self.w)

    def _rb(self, o, f):
        if not isinstance(o, (int, BV)):
            return NotImplemented
        return BV(f(BV.lift(o, self.w), self.t), self.w)

    def __and__(self, o): return self._b(o, lambda a, b: a & b)
    __rand__ = __and__
    def __or__(self, o): return self._b(o, lambda a, b: a | b)
    __ror__ = __or__
    def __xor__(self, o): return self._b(o, lambda a, b: a ^ b)
    __rxor__ = __xor__
    def __lshift__(self, o): return self._b(o, lambda a, b: a << b)
    def __rshift__(self, o): return self._b(o, lambda a, b: a >> b)   # arithmetic, like Python
    def __add__(self, o): return self._b(o, lambda a, b: a + b)
    __radd__ = __add__
    def __sub__(self, o): return self._b(o, lambda a, b: a - b)
    def __rsub__(self, o): return self._rb(o, lambda a, b: a - b)
    def __invert__(self): return BV(~self.t, self.w)

    def __mod__(self, o):
        if isinstance(o, int) and o > 0 and o & (o - 1) == 0:
            # Python's % with a positive power-of-two modulus == low bits of the two's complement form
            return BV(self.t & z3.BitVecVal(o - 1, self.w), self.w)
        if isinstance(o, int) and o > 0:
            # z3's % on bit-vectors is bvsmod (sign of the divisor): for a positive modulus it is Python's %
            return BV(self.t % z3.BitVecVal(o, self.w), self.w)
        raise EncodingGap('BV % non-positive or symbolic modulus')

    def _c(self, o, f):
        if o is None:
            return NotImplemented
        if not isinstance(o, (int, BV)):
            return NotImplemented
        return SB(f(self.t, BV.lift(o, self.w)))

    def __eq__(self, o):
        if o is None:
            return False
        return self._c(o, lambda a, b: a == b)

    def __ne__(self, o):
        if o is None:
            return True
        return self._c(o, lambda a, b: a != b)
    def __lt__(self, o): return self._c(o, lambda a, b: a < b)      # signed
    def __le__(self, o): return self._c(o, lambda a, b: a <= b)
    def __gt__(self, o): return self._c(o, lambda a, b: a > b)
    def __ge__(self, o): return self._c(o, lambda a, b: a >= b)
    __hash__ = None

    def __bool__(self):
        return branch(self.t != z3.BitVecVal(0, self.w))

    def __repr__(self):
        return f'BV{self.w}({self.t})'


# --------------------------------------------------------------------------- R

class R:
    """Exact real: num/den; concrete iff num is a Fraction (then den == 1)."""
    __slots__ = ('n', 'd', 'sq')
    __array_priority__ = 1000

    def __init__(self, n, d=ONE):
        self.sq = None          # for r = |z|: the exact square |z|^2, so that abs(z)**2 needs no square-root variable
        if not _isz(n) and not isinstance(n, Fr):
            n = to_fr(n)
        if not _isz(d):
            if not isinstance(d, Fr):
                d = to_fr(d)
            if d != 1:
                if d == 0:
                    raise ZeroDivisionError('division by zero')
                n = tmul(n, 1 / d)
                d = ONE
        elif not _isz(n) and n == 0:
            d = ONE
        self.n, self.d = n, d

    # -- construction helpers
    @staticmethod
    def of(x):
        if isinstance(x, R):
            return x
        if isinstance(x, (bool, int, float, Fr)):
            return R(to_fr(x))
        if isinstance(x, SI):
            return R(z3.ToReal(x.t))
        if isinstance(x, SB):
            return R(z3.If(x.t, z3.RealVal(1), z3.RealVal(0)))
        if isinstance(x, C):
            raise TypeError("can't convert complex to float")
        if hasattr(x, '__vf_scalar__'):
            return R.of(x.__vf_scalar__())
        raise TypeError(f'cannot read {type(x).__name__} as real')

    @property
    def concrete(self):
        return not _isz(self.n) and not _isz(self.d)

    def fr(self):
        if _isz(self.n) or _isz(self.d):
            raise EncodingGap('concrete value of a symbolic real requested')
        return self.n

    def term(self):
        """z3 term of the value (with the division left in; for printing/model evaluation)."""
        if not _isz(self.d) and self.d == 1:
            return tz(self.n)
        return tz(self.n) / tz(self.d)

    # -- arithmetic
    @staticmethod
    def _co(o):
        if isinstance(o, R):
            return o
        if isinstance(o, (bool, int, float, Fr, SI, SB)):
            return R.of(o)
        if hasattr(o, '__vf_scalar__') and not isinstance(o, ndarray_types()):
            return R._co(o.__vf_scalar__())
        return None

    def __add__(self, o):
        b = R._co(o)
        if b is None:
            return NotImplemented
        if _same(self.d, b.d):
            return R(tadd(self.n, b.n), self.d)
        return R(tadd(tmul(self.n, b.d), tmul(b.n, self.d)), tmul(self.d, b.d))
    __radd__ = __add__

    def __sub__(self, o):
        b = R._co(o)
        if b is None:
            return NotImplemented
        if _same(self.d, b.d):
            return R(tsub(self.n, b.n), self.d)
        return R(tsub(tmul(self.n, b.d), tmul(b.n, self.d)), tmul(self.d, b.d))

    def __rsub__(self, o):
        b = R._co(o)
        if b is None:
            return NotImplemented
        return b - self

    def __mul__(self, o):
        b = R._co(o)
        if b is None:
            return NotImplemented
        return R(tmul(self.n, b.n), tmul(self.d, b.d))
    __rmul__ = __mul__

    def __truediv__(self, o):
        b = R._co(o)
        if b is None:
            return NotImplemented
        if not _isz(b.n):
            if b.n == 0:
                raise ZeroDivisionError('float division by zero')
            return R(tmul(self.n, 1 / b.n), self.d) if not _isz(b.d) else R(tmul(tmul(self.n, b.d), 1 / b.n), self.d)
        c = ctx()
        c.defs.append(b.n != 0)
        c.events.append(('div', b.n))
        return R(tmul(self.n, b.d), tmul(self.d, b.n))

    def __rtruediv__(self, o):
        b = R._co(o)
        if b is None:
            return NotImplemented
        return b / self

    def __floordiv__(self, o):
        return floor(self / o)

    def __rfloordiv__(self, o):
        return floor(R.of(o) / self)

    def __mod__(self, o):
        q = floor(self / o)
        return self - q * o

    def __rmod__(self, o):
        return R.of(o) % self

    def __neg__(self):
        return R(tneg(self.n) if _isz(self.n) else -self.n, self.d)

    def __pos__(self):
        return self

    def __abs__(self):
        if self.concrete:
            return R(abs(self.n))
        r = ite(self >= 0, self, -self)
        r.sq = self * self              # |x|**2 is x*x, syntactically (keeps transcendental arguments in one normal form)
        return r

    def __pow__(self, o):
        from . import tf
        return tf.power(self, o)

    def __rpow__(self, o):
        from . import tf
        return tf.power(o, self)

    # -- comparisons
    def _cmp(self, o, op):
        if o is None or isinstance(o, str):
            return NotImplemented
        b = R._co(o)
        if b is None:
            return NotImplemented
        if self.concrete and b.concrete:
            return getattr(self.n, op)(b.n)
        dcon = not _isz(self.d) and not _isz(b.d)
        if dcon:
            return SB(getattr(tz(self.n), op)(tz(b.n)))
        diff = self - b
        if op in ('__eq__', '__ne__'):
            return SB(getattr(tz(diff.n), op)(z3.RealVal(0)))
        # sign(N/D) == sign(N*D) for D != 0
        return SB(getattr(tz(diff.n) * tz(diff.d), op)(z3.RealVal(0)))

    def __lt__(self, o): return self._cmp(o, '__lt__')
    def __le__(self, o): return self._cmp(o, '__le__')
    def __gt__(self, o): return self._cmp(o, '__gt__')
    def __ge__(self, o): return self._cmp(o, '__ge__')

    def __eq__(self, o):
        r = self._cmp(o, '__eq__')
        return False if r is NotImplemented and (o is None or isinstance(o, str)) else r

    def __ne__(self, o):
        r = self._cmp(o, '__ne__')
        return True if r is NotImplemented and (o is None or isinstance(o, str)) else r

    def __hash__(self):
        if self.concrete:
            return hash(self.n)
        # symbolic values used as dictionary / cache keys: equal terms hash alike, and the lookup's `==` then goes to the solver
        return hash(z3.simplify(tz(self.n) / tz(self.d)).sexpr())

    def __bool__(self):
        r = self != 0
        return bool(r)

    def __float__(self):
        if self.concrete:
            return float(self.n)
        raise EncodingGap('float() of a symbolic real (a C function tried to read its payload)')

    def __int__(self):
        if self.concrete:
            return int(self.n)
        raise EncodingGap('int() of a symbolic real outside vf_int')

    def __index__(self):
        raise TypeError("'float' object cannot be interpreted as an integer")

    def __round__(self, nd=None):
        if nd is None:
            return rint(self, as_int=True)
        raise EncodingGap('round(x, n)')

    def __repr__(self):
        if self.concrete:
            return f'R({float(self.n)!r})'
        return f'R<{z3.simplify(self.term())}>'

    def __str__(self):
        if self.concrete:
            return repr(float(self.n))
        return placeholder(self, '')

    def __format__(self, spec):
        if self.concrete:
            return format(float(self.n), spec)
        return placeholder(self, spec)

    # -- numpy-scalar conveniences (np.float64 has the ndarray API)
    real = property(lambda s: s)
    imag = property(lambda s: R(ZERO))
    ndim = 0
    size = 1
    shape = ()
    def conj(self): return self
    conjugate = conj
    def sum(self, *a, **k): return self
    def mean(self, *a, **k): return self
    def max(self, *a, **k): return self
    def min(self, *a, **k): return self
    def any(self): return self != 0
    def all(self): return self != 0
    def item(self): return self
    def copy(self): return self
    def is_integer(self):
        if self.concrete:
            return self.n.denominator == 1
        raise EncodingGap('is_integer on symbolic real')

    def clip(self, lo, hi):
        x = self
        if lo is not None:
            x = ite(x < lo, R.of(lo), x)
        if hi is not None:
            x = ite(x > hi, R.of(hi), x)
        return x

    def astype(self, dt):
        from .snp import _scalar_astype
        return _scalar_astype(self, dt)


def floor(x):
    """floor of a real as an integer-valued result (SI or int)."""
    x = R.of(x)
    if x.concrete:
        return math.floor(x.n)
    c = ctx()
    # the same argument (syntactically, after simplification) gets the same unknown: floor is a function
    memo = c.registry.setdefault('_floor_memo', {})
    key = z3.simplify(tz(x.n) / tz(x.d)) if _isz(x.d) else z3.simplify(tz(x.n) / x.d)
    hit = memo.get(key.get_id())
    if hit is not None and hit[0].eq(key):
        return SI(hit[1])
    k = z3.Int(c.fresh_name('floor'))
    memo[key.get_id()] = (key, k)          # the key term is kept alive, so its id stays valid
    kr = R(z3.ToReal(k))
    lo = kr <= x
    hi = x < kr + 1
    if _isz(x.d):
        # the comparisons are only meaningful where x is defined; do not let the axiom exclude den == 0
        c.axioms.append(z3.Or(x.d == 0, z3.And(lo.t, hi.t)))
    else:
        c.axioms.append(lo.t)
        c.axioms.append(hi.t)
    return SI(k)


def trunc(x):
    """int(x): truncation toward zero."""
    if isinstance(x, (int, SI)):
        return x
    x = R.of(x)
    if x.concrete:
        return int(x.n)
    if not _isz(x.d) and z3.is_app(x.n) and x.n.decl().kind() == z3.Z3_OP_TO_REAL:
        return SI(x.n.arg(0))           # already integer-valued (e.g. the result of np.round)
    f = floor(x)
    # toward zero: floor for x >= 0, ceil for x < 0
    isint = R.of(f) == x
    return ite(sb_or([x >= 0, isint]), f, f + 1)


def rint(x, as_int=False):
    """np.round / round(): round half to even."""
    if isinstance(x, (int, SI)):
        return x
    x = R.of(x)
    if x.concrete:
        r = round(x.n)
        return r if as_int else R(Fr(r))
    f = floor(x)                     # f <= x < f+1
    frac2 = (x - R.of(f)) * 2        # in [0,2)
    even = (f % 2) == 0
    up = sb_or([frac2 > 1, sb_and([frac2 == 1, sb_not(even)])])
    r = ite(up, f + 1, f)
    return r if as_int else R.of(r)


# --------------------------------------------------------------------------- C

class C:
    """Complex number as a pair of reals."""
    __slots__ = ('re', 'im')
    __array_priority__ = 1000

    def __init__(self, re, im=0):
        self.re = R.of(re)
        self.im = R.of(im)

    @staticmethod
    def of(x):
        if isinstance(x, C):
            return x
        if isinstance(x, complex):
            return C(x.real, x.imag)
        return C(R.of(x), R(ZERO))

    @staticmethod
    def _co(o):
        if isinstance(o, C):
            return o
        if isinstance(o, (bool, int, float, Fr, SI, SB, R)):
            return C(R.of(o), R(ZERO))
        if isinstance(o, complex):
            return C(o.real, o.imag)
        if hasattr(o, '__vf_scalar__') and not isinstance(o, ndarray_types()):
            return C._co(o.__vf_scalar__())
        return None

    @property
    def concrete(self):
        return self.re.concrete and self.im.concrete

    real = property(lambda s: s.re)
    imag = property(lambda s: s.im)

    def __add__(self, o):
        b = C._co(o)
        if b is None:
            return NotImplemented
        return C(self.re + b.re, self.im + b.im)
    __radd__ = __add__

    def __sub__(self, o):
        b = C._co(o)
        if b is None:
            return NotImplemented
        return C(self.re - b.re, self.im - b.im)

    def __rsub__(self, o):
        b = C._co(o)
        if b is None:
            return NotImplemented
        return b - self

    def __mul__(self, o):
        b = C._co(o)
        if b is None:
            return NotImplemented
        if _is0(b.im):
            return C(self.re * b.re, self.im * b.re)
        if _is0(self.im):
            return C(self.re * b.re, self.re * b.im)
        if _is0(b.re):
            return C(-(self.im * b.im), self.re * b.im)
        if _is0(self.re):
            return C(-(self.im * b.im), self.im * b.re)
        return C(self.re * b.re - self.im * b.im, self.re * b.im + self.im * b.re)
    __rmul__ = __mul__

    def __truediv__(self, o):
        b = C._co(o)
        if b is None:
            return NotImplemented
        if _is0(b.im):
            return C(self.re / b.re, self.im / b.re)
        m = b.re * b.re + b.im * b.im
        num = self * b.conjugate()
        return C(num.re / m, num.im / m)

    def __rtruediv__(self, o):
        b = C._co(o)
        if b is None:
            return NotImplemented
        return b / self

    def __neg__(self):
        return C(-self.re, -self.im)

    def __pos__(self):
        return self

    def conjugate(self):
        return C(self.re, -self.im)
    conj = conjugate

    def abs2(self):
        return self.re * self.re + self.im * self.im

    def __abs__(self):
        from . import tf
        if _is0(self.im):
            return abs(self.re)
        if _is0(self.re):
            return abs(self.im)
        sq = self.abs2()
        r = tf.sqrt(sq)
        if not r.concrete:
            r = R(r.n, r.d)
            r.sq = sq
        return r

    def __pow__(self, o):
        if isinstance(o, R) and o.concrete and o.n.denominator == 1:
            o = int(o.n)
        if isinstance(o, int):
            if o == 0:
                return C(1, 0)
            if o < 0:
                return C(1, 0) / (self ** (-o))
            r = self
            for _ in range(o - 1):
                r = r * self
            return r
        raise EncodingGap('complex ** non-integer')

    def __eq__(self, o):
        b = C._co(o)
        if b is None:
            return False if (o is None or isinstance(o, str)) else NotImplemented
        return sb_and([self.re == b.re, self.im == b.im])

    def __ne__(self, o):
        r = self.__eq__(o)
        if r is NotImplemented:
            return r
        return sb_not(r)

    def __hash__(self):
        return hash((self.re, self.im))

    def __bool__(self):
        return bool(self != 0)

    def __complex__(self):
        if self.concrete:
            return complex(float(self.re), float(self.im))
        raise EncodingGap('complex() of a symbolic value')

    def __float__(self):
        raise TypeError("can't convert complex to float")

    def __repr__(self):
        return f'C({self.re!r}, {self.im!r})'

    def __format__(self, spec):
        if self.concrete:
            return format(complex(self), spec)
        return placeholder(self, spec)

    ndim = 0
    size = 1
    shape = ()
    def sum(self, *a, **k): return self
    def mean(self, *a, **k): return self
    def item(self): return self
    def copy(self): return self
    def any(self): return self != 0

    def astype(self, dt):
        from .snp import _scalar_astype
        return _scalar_astype(self, dt)


def _is0(r):
    return (not _isz(r.n)) and r.n == 0


# --------------------------------------------------------------------------- strings

class SymStr:
    """Symbolic string (z3 String term with a length bound); only regex matching is modelled."""

    def __init__(self, t, maxlen):
        self.t, self.maxlen = t, maxlen

    def __getattr__(self, k):
        if k.startswith('__') and k.endswith('__'):
            raise AttributeError(k)
        raise EncodingGap(f'str.{k} on a symbolic string')

    def __repr__(self):
        return f'SymStr({self.t})'


# --------------------------------------------------------------------------- misc

_nd_types = ()


def ndarray_types():
    return _nd_types


def register_ndarray(cls):
    global _nd_types
    _nd_types = _nd_types + (cls,)


_placeholders = []


def placeholder(val, spec):
    """Token standing for the formatted text of a symbolic scalar inside a string."""
    c = ctx()
    k = len(c.events)
    tok = f'⟦{k}⟧'
    c.events.append(('fmt', (tok, val, spec)))
    return tok


def is_symbolic(x):
    if isinstance(x, (SB, SI, BV)):
        return True
    if isinstance(x, R):
        return not x.concrete
    if isinstance(x, C):
        return not x.concrete
    return False


def is_scalar(x):
    return isinstance(x, (bool, int, float, complex, Fr, R, C, SI, SB, BV))


def vf_isinstance(obj, cls):
    if builtins.isinstance(obj, cls):
        return True
    stack = [cls]
    flat = []
    while stack:
        c = stack.pop()
        if builtins.isinstance(c, tuple):
            stack.extend(c)
        elif hasattr(c, '__args__') and not builtins.isinstance(c, type):
            stack.extend(c.__args__)
        else:
            flat.append(c)
    for c in flat:
        if c is float and builtins.isinstance(obj, R):
            return True
        if c is int and builtins.isinstance(obj, (SI, BV)):
            return True
        if c is complex and builtins.isinstance(obj, C):
            return True
        if c is str and builtins.isinstance(obj, SymStr):
            return True
        if type(c).__name__ == 'DT':
            from .snp import scalar_tag
            try:
                if scalar_tag(obj) == c.tag:
                    return True
            except Exception:
                pass
    return False


def vf_int(x=0, *a):
    if isinstance(x, (R, SI)):
        return trunc(x)
    if isinstance(x, SB):
        return x.as_int()
    if isinstance(x, BV):
        return x
    if isinstance(x, ndarray_types()):
        if x.size != 1:
            raise TypeError('only length-1 arrays can be converted to Python scalars')
        return vf_int(x.flat_list()[0])
    return int(x, *a)


def vf_float(x=0.0):
    if isinstance(x, R):
        return x
    if isinstance(x, (SI, SB)):
        return R.of(x)
    if isinstance(x, (bool, int, float, Fr)):
        return R.of(x)
    if isinstance(x, str):
        s = x.strip()
        try:
            return R(Fr(s))
        except (ValueError, ZeroDivisionError):
            f = float(s)            # 'inf', 'nan', ... raise EncodingGap below if non-finite
            return R.of(f)
    if isinstance(x, C):
        raise TypeError("float() argument must be a string or a real number, not 'complex'")
    if isinstance(x, ndarray_types()):
        if x.size != 1:
            raise TypeError('only length-1 arrays can be converted to Python scalars')
        return vf_float(x.flat_list()[0])
    return R.of(float(x))


def vf_complex(x=0, im=0):
    if isinstance(x, str):
        z = complex(x)
        return C(Fr(z.real), Fr(z.imag))
    if isinstance(im, int) and im == 0:
        return C.of(x)
    return C.of(x) + C(0, 1) * C.of(im)


def vf_bool(x=False):
    if isinstance(x, SB):
        return bool(x)
    return bool(x)


def vf_div(a, b):
    if type(a) in (int, bool) and type(b) in (int, bool):
        if b == 0:
            raise ZeroDivisionError('division by zero')
        return R(Fr(int(a), int(b)))
    if isinstance(a, float) and not isinstance(b, ndarray_types()) and isinstance(b, (int, float)):
        return R.of(a) / R.of(b)
    if isinstance(a, (int, float)) and isinstance(b, float):
        return R.of(a) / R.of(b)
    return a / b


def vf_pow(a, b):
    if type(a) in (int, bool) and type(b) in (int, bool):
        if b >= 0:
            return a ** b
        return R(Fr(int(a)) ** int(b))
    if isinstance(a, (int, float)) and isinstance(b, (int, float)):
        return R.of(a) ** R.of(b)
    return a ** b
