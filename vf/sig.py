"""Models of scipy.signal / special / integrate / stats and sklearn.cluster (DESIGN.md §1.6).

Filter *design* runs in the real scipy when its arguments are concrete and is recorded as a call
otherwise; filter *application* to symbolic data is the exact linear map obtained by pushing the
identity through the real `sosfiltfilt` (linearity of sosfiltfilt in x is scipy's documented
construction and is listed as an assumption).
"""
from __future__ import annotations
import types
from fractions import Fraction as Fr

import numpy as _np
import scipy.signal as _sg

from . import core, snp, tf
from .core import R, C, EncodingGap, event, is_symbolic, ctx, have_ctx, tz


def _mod(name, **attrs):
    m = types.ModuleType(name)
    m.__dict__.update(attrs)
    return m


class SosHandle:
    """Result of a recorded (possibly symbolic) filter design call."""

    def __init__(self, args, sos=None):
        self.args = args
        self.sos = sos


def _conc(x):
    """float of a concrete scalar, or None if symbolic."""
    if isinstance(x, (int, float)):
        return float(x)
    if isinstance(x, R) and x.concrete:
        return float(x.n)
    if hasattr(x, '__vf_scalar__'):
        return _conc(x.__vf_scalar__())
    return None


def bessel(N, Wn, btype='low', analog=False, output='ba', norm='phase', fs=None):
    args = dict(N=N, Wn=Wn, btype=btype, analog=analog, output=output, norm=norm, fs=fs)
    event('bessel', args)
    wn, f = _conc(Wn), (_conc(fs) if fs is not None else None)
    if isinstance(N, int) and wn is not None and (fs is None or f is not None) and output == 'sos':
        sos = _sg.bessel(N=N, Wn=wn, btype=btype, analog=analog, output='sos', norm=norm, fs=f)
        return SosHandle(args, sos)
    if output != 'sos':
        raise EncodingGap('bessel with output != sos')
    return SosHandle(args, None)


_MAT_CACHE = {}


def filt_matrix(sos, L):
    key = (sos.tobytes(), L)
    if key not in _MAT_CACHE:
        M = _sg.sosfiltfilt(sos, _np.eye(L), axis=0)     # column j = response to e_j
        _MAT_CACHE[key] = M
    return _MAT_CACHE[key]


def sosfiltfilt(sos, x, axis=-1, padtype='odd', padlen=None):
    x = snp._as_nd(x)
    event('sosfiltfilt', dict(sos=sos, x=x, axis=axis))
    if not isinstance(sos, SosHandle):
        raise EncodingGap('sosfiltfilt with a non-recorded sos')
    if axis not in (-1, x.ndim - 1):
        raise EncodingGap('sosfiltfilt along a non-last axis')
    L = x.shape[-1]
    if sos.sos is None:
        # symbolic design: the output is an uninterpreted linear image; fresh values per sample
        c = ctx()
        import z3
        out = [R(z3.Real(c.fresh_name('filt'))) for _ in range(x.size)]
        if x._tag == 'complex':
            out = [C(o, R(z3.Real(c.fresh_name('filt')))) for o in out]
        return snp.ndarray(snp._fill(x.shape, out), promote_float(x._tag))
    n_sections = sos.sos.shape[0]
    ntaps = 2 * n_sections + 1
    ntaps -= min((sos.sos[:, 2] == 0).sum(), (sos.sos[:, 5] == 0).sum())
    edge = 3 * ntaps
    if L <= edge:
        raise ValueError(f'The length of the input vector x must be greater than padlen, which is {edge}.')
    items = x.flat_list()
    if not any(is_symbolic(v) for v in items):
        # concrete data: run the real filter (exact rationals of the doubles in, doubles out)
        xa = _np.array([complex(C.of(v)) if x._tag == 'complex' else float(R.of(v)) for v in items]).reshape(x.shape)
        y = _sg.sosfiltfilt(sos.sos, xa, axis=-1)
        tag = 'complex' if _np.iscomplexobj(y) else 'float'
        return snp.array(y, dtype=tag)
    M = filt_matrix(sos.sos, L)
    rows = x._a.reshape(-1, L)
    out = snp._obj(rows.shape)
    tag = promote_float(x._tag)
    for r in range(rows.shape[0]):
        xs = [snp.cast(v, tag) for v in rows[r]]
        for i in range(L):
            acc = None
            for j in range(L):
                m = M[i, j]
                if m == 0.0:
                    continue
                term = xs[j] * R(Fr(float(m)))
                acc = term if acc is None else acc + term
            out[r, i] = acc if acc is not None else snp.cast(0, tag)
    return snp.ndarray(out.reshape(x.shape), tag)


def promote_float(tag):
    return 'complex' if tag == 'complex' else 'float'


def sosfreqz(sos, worN=512, whole=False, fs=None):
    event('sosfreqz', dict(sos=sos, worN=worN, whole=whole, fs=fs))
    if not isinstance(sos, SosHandle) or sos.sos is None:
        raise EncodingGap('sosfreqz of a symbolic design')
    f = _conc(fs) if fs is not None else 2 * _np.pi
    w, H = _sg.sosfreqz(sos.sos, worN=int(worN), whole=whole, fs=f)
    return snp.array(w, dtype=float), snp.array(H, dtype=complex)


def fftconvolve(a, b, mode='full'):
    a, b = snp._as_nd(a), snp._as_nd(b)
    if a.ndim != 1 or b.ndim != 1:
        raise EncodingGap('fftconvolve of non 1-D arrays')
    tag = snp.promote(a._tag, b._tag, 'float')
    A = [snp.cast(v, tag) for v in a.flat_list()]
    B = [snp.cast(v, tag) for v in b.flat_list()]
    n, m = len(A), len(B)
    full = []
    zero = snp.cast(0, tag)
    for k in range(n + m - 1):
        acc = None
        for i in range(max(0, k - m + 1), min(n, k + 1)):
            x, y = A[i], B[k - i]
            if _is_zero(x) or _is_zero(y):
                continue
            t = x * y
            acc = t if acc is None else acc + t
        full.append(acc if acc is not None else zero)
    if mode == 'full':
        res = full
    elif mode == 'same':
        start = (m - 1) // 2
        res = full[start:start + n]
    elif mode == 'valid':
        if n >= m:
            res = full[m - 1:n]
        else:
            res = full[n - 1:m]
    else:
        raise ValueError("acceptable mode flags are 'valid', 'same', or 'full'")
    return snp.ndarray(snp._fill((len(res),), res), tag)


def _is_zero(v):
    if isinstance(v, R):
        return v.concrete and v.n == 0
    if isinstance(v, C):
        return v.concrete and v.re.n == 0 and v.im.n == 0
    return False


def resample(x, num, *a, **k):
    raise EncodingGap('scipy.signal.resample')


def find_peaks(x, *a, **k):
    event('find_peaks', None)
    return snp.array([], dtype=int), {}


def peak_widths(x, peaks, *a, **k):
    event('peak_widths', None)
    return (snp.array([], dtype=float),) * 4


def medfilt(x, *a, **k):
    raise EncodingGap('medfilt')


def correlate(in1, in2, mode='full', method='auto'):
    """scipy.signal.correlate for 1-D inputs: convolve(in1, reversed conjugate of in2).  Unlike fftconvolve the result is cast back
    to the result type of the operands: for integer records the (rounded) sums wrap around in that dtype."""
    a, v = snp._as_nd(in1), snp._as_nd(in2)
    if a.ndim != 1 or v.ndim != 1:
        raise EncodingGap('correlate of non 1-D arrays')
    rev = [x.conjugate() if isinstance(x, C) else x for x in v.flat_list()][::-1]
    tag = snp.promote(a._tag, v._tag)
    out = fftconvolve(a, snp.array(rev, dtype=snp._DTS[v._tag]), mode=mode)
    if tag in snp.INT_TAGS or tag == 'bool':
        rt = 'int' if tag == 'bool' else tag
        return snp.round_(out).astype(snp._DTS[rt])
    return out


def signal_module():
    return _mod('scipy.signal', bessel=bessel, sosfiltfilt=sosfiltfilt, sosfreqz=sosfreqz, fftconvolve=fftconvolve, correlate=correlate,
                resample=resample, find_peaks=find_peaks, peak_widths=peak_widths, medfilt=medfilt)


# ------------------------------------------------------------------ scipy.special

def erfc(x):
    if isinstance(x, snp.ndarray):
        return snp._map(lambda v: tf.erfc(R.of(v)), x, 'float')
    return tf.erfc(R.of(x))


def special_module():
    return _mod('scipy.special', erfc=erfc)


# ------------------------------------------------------------------ scipy.integrate / stats / sklearn

def quad(f, a, b, *args, **kw):
    """Recording stub: symbolically the value of the integral is an unconstrained fresh variable (the quadrature is outside
    every claim; the recorded integrand and limits are what the set-up clauses inspect).  With concrete inputs the real
    scipy routine integrates the model's integrand."""
    import z3
    c = ctx()
    if getattr(c, 'mode', None) == 'concrete':
        import scipy.integrate as _si
        from fractions import Fraction as _Fr

        def g(x):
            v = f(R(_Fr(float(x))), *args)
            return float(v.n) if isinstance(v, R) else float(v)
        val, err = _si.quad(g, float(a), float(b), **kw)
        return (R(_Fr(float(val))), R(_Fr(float(err))))
    out = R(z3.Real(c.fresh_name('quad')))
    event('quad', dict(f=f, a=a, b=b, args=args, out=out))
    return (out, R(z3.Real(c.fresh_name('quaderr'))))


class _Sol:
    pass


def solve_ivp(fun, t_span, y0, method='RK45', args=None, vectorized=False, **kw):
    """Recording stub: the returned state is an arbitrary complex vector."""
    import z3
    c = ctx()
    event('solve_ivp', dict(fun=fun, t_span=t_span, y0=y0, method=method, args=args, vectorized=vectorized))
    y0 = snp._as_nd(y0)
    n = y0.size
    vals = []
    r_one = c.limits.get('ivp_R_one')
    # the solver is a deterministic function of its inputs: the same problem gets the same unknowns, another problem gets others
    # (so that a result carried over from an earlier, different call is not mistaken for the solution of this one)
    def _k(v):
        if isinstance(v, snp.ndarray):
            return '[' + ','.join(_k(u) for u in v.flat_list()) + ']'
        if isinstance(v, (list, tuple)):
            return '(' + ','.join(_k(u) for u in v) + ')'
        if isinstance(v, C):
            return _k(v.re) + '+j' + _k(v.im)
        if isinstance(v, R):
            return str(v.n) if v.concrete else z3.simplify(tz(v.n) / tz(v.d)).sexpr()
        if callable(v):
            return getattr(v, '__qualname__', 'callable')
        return repr(v)
    key = _k([list(t_span), y0, list(args or ()), method, vectorized])
    keys = c.registry.setdefault('_ivp_keys', {})
    idx = keys.setdefault(key, len(keys))
    sfx = '' if idx == 0 else f'_p{idx}'
    for i in range(n):
        if r_one and i < n // 2:
            vals.append(C(1, 0))          # forward wave normalised to 1: rho = S/R = S (used by the energy-lemma configuration)
            continue
        re = z3.Real(f'ivp_re{i}{sfx}')
        im = z3.Real(f'ivp_im{i}{sfx}')
        c.inputs[f'ivp_re{i}{sfx}'] = re
        c.inputs[f'ivp_im{i}{sfx}'] = im
        vals.append(C(R(re), R(im)))
    s = _Sol()
    s.y = snp.ndarray(snp._fill((n, 1), vals), 'complex')
    s.t = snp.array([t_span[0], t_span[1]], dtype=float)
    s.success = True
    return s


def integrate_module():
    return _mod('scipy.integrate', quad=quad, solve_ivp=solve_ivp)


class gaussian_kde:
    def __init__(self, *a, **k):
        raise EncodingGap('gaussian_kde')


def stats_module():
    return _mod('scipy.stats', gaussian_kde=gaussian_kde)


class KMeans:
    def __init__(self, *a, **k):
        raise EncodingGap('sklearn.cluster.KMeans')


def sklearn_cluster_module():
    return _mod('sklearn.cluster', KMeans=KMeans)
